package main

import (
	"bytes"
	"encoding/hex"
	"encoding/json"
	"errors"
	"fmt"
	"io"
	"math"
	"runtime/debug"
	"strings"

	"github.com/safing/portbase/container"

	"verifharness/internal/vlib"
)

// C16 — a container is a faithful byte queue.
//
// A case is a *byte program*: one header byte (how register 0 is created) followed by
// 3-byte instructions [opcode, selector, argument]. The interpreter applies every
// instruction to a real container.Container and to a plain []byte model and compares
// return values and the full content (through the non-consuming WriteAllTo, Length and
// HoldsData) after every step. Every byte string is a valid program, so --replay is
// simply "run these bytes again". Three registers hold containers so that the
// container-splitting operations (PeekContainer, GetAsContainer,
// GetNextBlockAsContainer) and AppendContainer* have somewhere to put / take their
// containers from.
//
// What the model demands (and nothing more):
//   * an operation that reports failure leaves the content unchanged;
//   * short results only where the documentation gives the caller no error value or
//     says "as much as possible" (Peek, GetMax, WriteToSlice);
//   * Get / GetAsContainer / PeekContainer with 0 <= n <= held must succeed with
//     exactly the first n bytes, with n > held must fail; n < 0 may fail or yield nothing;
//   * GetNextN<w> / GetNextBlock*: a truncated prefix, a value wider than w bits and a
//     block length above what is held must fail; a shortest-form prefix that fits must
//     succeed; a non-shortest prefix may do either (but a success must be correct);
//   * nothing panics; inputs are never modified.

const (
	opAppend = iota
	opPrepend
	opAppendAsBlock
	opPrependAsBlock
	opAppendNumber
	opPrependNumber
	opAppendInt
	opPrependInt
	opAppendContainer
	opAppendContainerAsBlock
	opPrependLength
	opReplace
	opCompileData
	opPeek
	opPeekContainer
	opGet
	opGetAll
	opGetMax
	opGetAsContainer
	opWriteToSlice
	opWriteAllTo
	opGetNextBlock
	opGetNextBlockAsContainer
	opGetNextN8
	opGetNextN16
	opGetNextN32
	opGetNextN64
	opMarshalJSON
	opUnmarshalJSON
	opReinit
	opJSONTransfer
	c16NOps
)

var c16OpNames = [c16NOps]string{"Append", "Prepend", "AppendAsBlock", "PrependAsBlock", "AppendNumber", "PrependNumber",
	"AppendInt", "PrependInt", "AppendContainer", "AppendContainerAsBlock", "PrependLength", "Replace", "CompileData",
	"Peek", "PeekContainer", "Get", "GetAll", "GetMax", "GetAsContainer", "WriteToSlice", "WriteAllTo", "GetNextBlock",
	"GetNextBlockAsContainer", "GetNextN8", "GetNextN16", "GetNextN32", "GetNextN64", "MarshalJSON", "UnmarshalJSON",
	"New", "MarshalJSON+UnmarshalJSON"}

type c16ArgKind int

const (
	argNone c16ArgKind = iota
	argData
	argNum
	argN
	argInit
	argJSON
	argWriter
)

var c16ArgKinds = [c16NOps]c16ArgKind{argData, argData, argData, argData, argNum, argNum, argNum, argNum, argNone, argNone,
	argNone, argData, argNone, argN, argN, argN, argNone, argN, argN, argN, argWriter, argNone, argNone, argNone, argNone,
	argNone, argNone, argNone, argJSON, argInit, argNone}

const (
	c16MaxOps       = 64
	c16MaxModel     = 1 << 16
	c16DangerLo     = uint64(1) << 26 // requested lengths in (lo, hi) would really be allocated by a
	c16DangerHi     = uint64(1) << 48 // container that trusts them; they are exercised only on request
	c16DangerMaxRun = uint64(1) << 30
)

// outcome indices
const (
	ocOK = iota
	ocErr
	ocShort
	ocSkipped
	nOutcomes
)

var c16OutcomeNames = [nOutcomes]string{"ok", "err", "short", "skipped"}

type c16Stats struct {
	progs, steps, finalDrains, aliasChecked, keptChecks, errUnchanged, maxLen, maxOps, dangerousRun int64
	ops                                                                                             [c16NOps][nOutcomes]int64
	inits                                                                                           [8]int64
	nclass                                                                                          [17]int64
}

var c16stats c16Stats

func init() {
	props["C16"] = &propImpl{
		shards: func(cfg vlib.Cfg) int { return cfg.N(16, 32) },
		run:    runC16,
		rule: "a case is a byte program (header + 3-byte instructions) interpreted as container operations on up to 3 containers and on a []byte model; " +
			"all 1-instruction programs x 8 creation modes x all 256 argument bytes, all 2-instruction programs over the per-operation argument classes " +
			"(lengths {0,1,2,3,10,held,held-1,held+1,held/2,-1,-held,minint,maxint,2^62,2^50,held+1000}, numbers at every varint/width boundary and relative to the held length, " +
			"slices nil/empty/1..1000 bytes random/0xff/0x80/small/varint-prefixed), 3-instruction programs over a reduced alphabet, every pair and triple of small (1..10 byte) reads on a container of ten 1..3 byte compartments, and PRNG programs of 1..40 instructions in 5 styles (one: many tiny compartments then many small reads). " +
			"Every byte slice a container returns is kept and re-compared with its content at return time after every later instruction and at the end. " +
			"distinct = distinct programs; non-trivial = at least one instruction was executed and every executed instruction's results and the content of the containers it touched were compared with the model",
		finish: c16Finish,
	}
	classes["c16.prog"] = func(c *ctx, in []byte) { c16Case(c, in) }
}

func c16Finish(cfg vlib.Cfg, r *vlib.Report) {
	r.Floor(r.Counter("programs") >= int64(cfg.N(300000, 3000000)), "programs=%d", r.Counter("programs"))
	r.Floor(r.Counter("steps") >= int64(cfg.N(2000000, 20000000)), "steps=%d", r.Counter("steps"))
	var missing []string
	for op := 0; op < c16NOps; op++ {
		if r.Counter("op."+c16OpNames[op]+".ok") == 0 {
			missing = append(missing, c16OpNames[op]+".ok")
		}
	}
	for _, op := range []int{opGet, opGetAsContainer, opGetNextBlock, opGetNextBlockAsContainer, opGetNextN8, opGetNextN16, opGetNextN32, opGetNextN64, opUnmarshalJSON} {
		if r.Counter("op."+c16OpNames[op]+".err") == 0 {
			missing = append(missing, c16OpNames[op]+".err")
		}
	}
	for _, op := range []int{opPeek, opGetMax, opWriteToSlice} {
		if r.Counter("op."+c16OpNames[op]+".short") == 0 {
			missing = append(missing, c16OpNames[op]+".short")
		}
	}
	r.Floor(len(missing) == 0, "operation outcomes never observed: %v", missing)
	r.Floor(r.Counter("error_then_content_unchanged_checks") >= 1000, "error_then_content_unchanged_checks=%d", r.Counter("error_then_content_unchanged_checks"))
	r.Assume("reference = plain []byte queue; varint prefixes decoded with an independent arbitrary-precision LEB128 decoder")
	r.Assume("AppendContainer(AsBlock) of a container onto itself, nil *Container arguments and a nil receiver are outside the explored space")
	r.Assume(fmt.Sprintf("requested lengths / block-length prefixes between 2^26 and 2^48 above what is held are executed only in dedicated cases (<= 2^30, plain build) and skipped elsewhere (counted as op.*.skipped): a container that trusts them would really allocate them"))
}

// ---------------------------------------------------------------------------------

func mix64(x uint64) uint64 {
	x += 0x9e3779b97f4a7c15
	x = (x ^ (x >> 30)) * 0xbf58476d1ce4e5b9
	x = (x ^ (x >> 27)) * 0x94d049bb133111eb
	return x ^ (x >> 31)
}

func cat(parts ...[]byte) []byte {
	n := 0
	for _, p := range parts {
		n += len(p)
	}
	out := make([]byte, 0, n)
	for _, p := range parts {
		out = append(out, p...)
	}
	return out
}

type c16Reg struct {
	c     *container.Container
	m     []byte
	stale bool // a Replace / UnmarshalJSON was applied (precondition class in signatures)
}

type c16Input struct {
	view, orig, whole []byte
}

type c16Fail struct {
	sig, what string
	step      int
	extra     map[string]any
}

type c16Run struct {
	c       *ctx
	prog    []byte
	step    int
	regs    [3]*c16Reg
	ins     []c16Input
	tracing bool
	trace   []string
	fail    *c16Fail
	buf     bytes.Buffer
	lastOut int
	kept    []c16Kept
}

func (p *c16Run) tr(format string, a ...any) {
	if p.tracing {
		p.trace = append(p.trace, fmt.Sprintf("%d: ", p.step)+fmt.Sprintf(format, a...))
	}
}

func (p *c16Run) failf(sig string, extra map[string]any, format string, a ...any) {
	if p.fail == nil {
		p.fail = &c16Fail{sig: sig, what: fmt.Sprintf(format, a...), step: p.step, extra: extra}
	}
}

func c16Precond(r *c16Reg) string {
	switch {
	case r == nil:
		return "na"
	case r.stale:
		return "after-Replace-or-UnmarshalJSON"
	case len(r.m) == 0:
		return "empty"
	default:
		return "nonempty"
	}
}

func panicKind(msg string) string {
	switch {
	case strings.Contains(msg, "index out of range"):
		return "index-out-of-range"
	case strings.Contains(msg, "makeslice"):
		return "makeslice"
	case strings.Contains(msg, "slice bounds out of range"):
		return "slice-bounds"
	case strings.Contains(msg, "nil pointer"):
		return "nil-deref"
	case strings.Contains(msg, "out of memory"):
		return "out-of-memory"
	default:
		return "other"
	}
}

// c16Kept is a byte slice a container handed out, with what it held at that moment.
type c16Kept struct {
	op   string
	step int
	view []byte
	was  []byte
}

const c16KeepEachStep = 1024 // longer results are re-compared only at the end of the history

// keep remembers a returned slice: everything a container has handed out must stay what
// it was, whatever is done with the container afterwards.
func (p *c16Run) keep(op string, got []byte) {
	if len(got) == 0 {
		return
	}
	p.kept = append(p.kept, c16Kept{op: op, step: p.step, view: got, was: cat(got)})
}

// recheck compares every kept result with its content at return time.
func (p *c16Run) recheck(after string, final bool) {
	if p.fail != nil {
		return
	}
	for i := range p.kept {
		k := &p.kept[i]
		if !final && len(k.view) > c16KeepEachStep {
			continue
		}
		c16stats.keptChecks++
		if !bytes.Equal(k.view, k.was) {
			p.failf("C16:result-changed-later:"+k.op, map[string]any{"returned_by": k.op, "returned_at_step": k.step, "changed_by": after, "was_hex": hex.EncodeToString(trunc(k.was, 256)), "now_hex": hex.EncodeToString(trunc(k.view, 256))},
				"the %d bytes %s returned by %s at step %d read %s after the later %s: a result handed out earlier was overwritten", len(k.was), c16Short(k.was), k.op, k.step, c16Short(k.view), after)
			return
		}
	}
}

// guard runs fn (which calls into portbase) and converts a panic into the failure of
// this program. It returns true if fn panicked.
func (p *c16Run) guard(op string, r *c16Reg, fn func()) (panicked bool) {
	defer func() {
		if rec := recover(); rec != nil {
			panicked = true
			st := string(debug.Stack())
			msg := fmt.Sprint(rec)
			p.failf("C16:panic:"+panicSite(st)+":"+panicKind(msg)+":"+c16Precond(r),
				map[string]any{"panic": msg, "stack": trimStack(st)},
				"%s panicked on a container holding %d bytes (%s): %s", op, c16Len(r), c16Precond(r), msg)
		}
	}()
	fn()
	return false
}

func c16Len(r *c16Reg) int {
	if r == nil {
		return 0
	}
	return len(r.m)
}

// ---------------------------------------------------------------------------------
// argument decoding

var c16Lens = [16]int{-1, 0, 1, 2, 3, 5, 9, 10, 11, 16, 64, 127, 128, 129, 300, 1000}

var c16PrefixVals = []uint64{0, 1, 2, 5, 127, 128, 300, 1 << 14, 1 << 32, 1 << 50, 1<<63 - 1, 1 << 63, math.MaxUint64, math.MaxUint64 - 1}

// data returns the byte slice selected by arg (nil, empty, or 1..1000 bytes of one of
// five kinds) as an exact-capacity slice or as a view into a canary-padded buffer.
func (p *c16Run) data(arg byte, sel byte, salt int) []byte {
	idx := int(arg)
	var n, kind int
	if idx < 160 {
		idx %= 80
		n, kind = c16Lens[idx%16], idx/16
	} else {
		n, kind = (idx-160)%48, 0
	}
	if n < 0 {
		return nil
	}
	d := make([]byte, n)
	h := mix64(uint64(arg)<<24 ^ uint64(p.step)<<8 ^ uint64(salt))
	fill := func() {
		x := h
		for i := range d {
			if i%8 == 0 {
				x = mix64(x)
			}
			d[i] = byte(x >> (8 * uint(i%8)))
		}
	}
	switch kind {
	case 0:
		fill()
	case 1:
		for i := range d {
			d[i] = 0xff
		}
	case 2:
		for i := range d {
			d[i] = 0x80
		}
	case 3:
		fill()
		for i := range d {
			d[i] &= 3
		}
	case 4:
		fill()
		v := c16PrefixVals[int(h>>40)%(len(c16PrefixVals)+2)%len(c16PrefixVals)]
		if int(h>>40)%(len(c16PrefixVals)+2) >= len(c16PrefixVals) && n > 0 {
			v = uint64(n - 1) // a prefix that describes (about) the rest of this slice
		}
		copy(d, refEncode(v))
	}
	in := c16Input{orig: d}
	if sel&0x10 != 0 {
		in.view, in.whole, _ = embed(d)
	} else {
		in.view = exact(d)
	}
	p.ins = append(p.ins, in)
	return in.view
}

func (p *c16Run) num(arg byte, t, s *c16Reg) uint64 {
	L := uint64(len(t.m))
	switch arg {
	case 0:
		return 0
	case 1:
		return 1
	case 2:
		return 2
	case 3:
		return 127
	case 4:
		return 128
	case 5:
		return 255
	case 6:
		return 256
	case 7:
		return 16383
	case 8:
		return 16384
	case 9:
		return 65535
	case 10:
		return 65536
	case 11:
		return 1<<32 - 1
	case 12:
		return 1 << 32
	case 13:
		return 1<<63 - 1
	case 14:
		return 1 << 63
	case 15:
		return math.MaxUint64
	case 16:
		return L
	case 17:
		return L - 1
	case 18:
		return L + 1
	case 19:
		return uint64(len(s.m))
	case 20:
		return math.MaxUint64 - 1
	case 21:
		return 1 << 62
	case 22:
		return L - 2
	case 23:
		return L / 2
	case 24:
		return 1 << 30
	}
	h := mix64(uint64(arg)<<24 ^ uint64(p.step))
	return (h | 1) >> (h >> 58)
}

// n returns the requested length selected by arg and its class index (for coverage).
func (p *c16Run) n(arg byte, t *c16Reg) (int, int) {
	L := len(t.m)
	switch arg {
	case 0:
		return 0, 0
	case 1:
		return 1, 1
	case 2:
		return L, 2
	case 3:
		return L - 1, 3
	case 4:
		return L + 1, 4
	case 5:
		return -1, 5
	case 6:
		return math.MinInt64, 6
	case 7:
		return math.MaxInt64, 7
	case 8:
		return 1 << 62, 8
	case 9:
		return L / 2, 9
	case 10:
		return 2, 10
	case 11:
		return L + 1000, 11
	case 12:
		return -L, 12
	case 13:
		return 3, 13
	case 14:
		return 10, 14
	case 15:
		return 1 << 50, 15
	}
	return int(arg-16) % (L + 3), 16
}

func (p *c16Run) newReg(arg byte) *c16Reg {
	k, v := arg&7, arg>>3
	c16stats.inits[k]++
	many := func() [][]byte {
		cnt := 2 + int(v)%5
		var out [][]byte
		for j := 0; j < cnt; j++ {
			a := byte(mix64(uint64(arg)<<8 | uint64(j)))
			if j%3 == 1 && v%2 == 0 {
				a = byte(j % 2) // nil / empty
			}
			if a%16 >= 14 {
				a -= 4 // keep the pieces small
			}
			out = append(out, p.data(a, byte(v)<<4, j+1))
		}
		return out
	}
	var c *container.Container
	var parts [][]byte
	p.guard("New", nil, func() {
		switch k {
		case 0:
			c = container.New()
		case 1:
			parts = [][]byte{p.data(v*7+5, byte(v)<<4, 1)}
			c = container.New(parts[0])
		case 2:
			parts = many()
			c = container.New(append([][]byte(nil), parts...)...)
		case 3:
			c = &container.Container{}
		case 4:
			parts = many()
			c = container.NewContainer(append([][]byte(nil), parts...)...)
		case 5:
			c = container.New(nil)
		case 6:
			parts = [][]byte{p.data(v*5+3, 0, 1), nil, p.data(v*3+2, 0x10, 2)}
			c = container.New(parts[0], parts[1], parts[2])
		default:
			c = container.New([]byte{}, []byte{})
		}
	})
	if p.tracing {
		var ls []int
		for _, x := range parts {
			ls = append(ls, len(x))
		}
		p.tr("create mode %d pieces %v", k, ls)
	}
	return &c16Reg{c: c, m: cat(parts...)}
}

// ---------------------------------------------------------------------------------
// writers for WriteAllTo

var errC16Writer = errors.New("harness writer is full")

type c16Writer struct {
	chunk int // >0: accept at most chunk bytes per call, without error
	limit int // >=0: total capacity; the call that exceeds it returns errC16Writer
	buf   []byte
}

func (w *c16Writer) Write(b []byte) (int, error) {
	n := len(b)
	if w.chunk > 0 && n > w.chunk {
		n = w.chunk
	}
	if w.limit >= 0 && len(w.buf)+n > w.limit {
		n = w.limit - len(w.buf)
		w.buf = append(w.buf, b[:n]...)
		return n, errC16Writer
	}
	w.buf = append(w.buf, b[:n]...)
	return n, nil
}

var _ io.Writer = (*c16Writer)(nil)

// ---------------------------------------------------------------------------------
// the interpreter

// observe compares one register with its model. after = name of the operation that
// was just applied; errored = that operation reported failure.
func (p *c16Run) observe(r *c16Reg, after string, errored bool, role string) {
	if p.fail != nil || r == nil || r.c == nil {
		return
	}
	var got []byte
	var l int
	var h bool
	var werr error
	if p.guard("WriteAllTo/Length/HoldsData after "+after, r, func() {
		p.buf.Reset()
		werr = r.c.WriteAllTo(&p.buf)
		got = p.buf.Bytes()
		l = r.c.Length()
		h = r.c.HoldsData()
	}) {
		return
	}
	kind := "content"
	if errored {
		kind = "error-but-changed"
	}
	if role != "" {
		kind += "-" + role
	}
	pre := ""
	if r.stale && after != "Replace" && after != "UnmarshalJSON" {
		// follow-on of an earlier Replace/UnmarshalJSON on this container: keep it apart
		// from a defect of the operation itself
		pre = ":after-Replace-or-UnmarshalJSON"
	}
	ex := func() map[string]any {
		return map[string]any{"model_hex": hex.EncodeToString(trunc(r.m, 512)), "model_len": len(r.m), "container_hex": hex.EncodeToString(trunc(got, 512)),
			"container_len": len(got), "Length": l, "HoldsData": h}
	}
	switch {
	case werr != nil:
		p.failf("C16:"+kind+":"+after+pre, ex(), "after %s: WriteAllTo into a bytes.Buffer returned %v", after, werr)
	case !bytes.Equal(got, r.m):
		p.failf("C16:"+kind+":"+after+pre, ex(), "after %s%s the container holds %d bytes %s, the byte-queue model %d bytes %s", after, map[bool]string{true: " (which reported failure)", false: ""}[errored],
			len(got), c16Short(got), len(r.m), c16Short(r.m))
	case l != len(r.m):
		p.failf("C16:length:"+after+pre, ex(), "after %s Length()=%d but %d bytes are held", after, l, len(r.m))
	case h != (len(r.m) > 0):
		p.failf("C16:holdsdata:"+after+pre, ex(), "after %s HoldsData()=%v but %d bytes are held", after, h, len(r.m))
	}
	if errored && p.fail == nil {
		c16stats.errUnchanged++
	}
}

func c16Short(b []byte) string {
	if len(b) > 24 {
		return hex.EncodeToString(b[:24]) + "…"
	}
	return hex.EncodeToString(b)
}

// refPrefix classifies the varint at the front of m for a width of w bits.
// mustErr: truncated or wider than w bits. minimal: shortest form.
func refPrefix(m []byte, w int) (v uint64, n int, mustErr, minimal bool) {
	front := m
	if len(front) > 12 {
		front = front[:12]
	}
	rv, rn, st := refDecode(front)
	if st != refOK || rv.BitLen() > w {
		return 0, 0, true, false
	}
	v = rv.Uint64()
	return v, rn, false, rn == len(refEncode(v))
}

func (p *c16Run) exec(op int, sel, arg byte) {
	ti, si := int(sel&3)%3, int(sel>>2&3)%3
	if (op == opAppendContainer || op == opAppendContainerAsBlock) && si == ti {
		si = (ti + 1) % 3
	}
	t, s := p.regs[ti], p.regs[si]
	name := c16OpNames[op]
	oc := ocOK
	errored := false
	setS := func(c *container.Container, m []byte) {
		p.regs[si] = &c16Reg{c: c, m: cat(m)}
	}
	grow := func(add int) bool { // keep the model bounded
		if len(t.m)+add > c16MaxModel {
			oc = ocSkipped
			return false
		}
		return true
	}
	wrong := func(kind, pre string, format string, a ...any) {
		sig := "C16:" + kind + ":" + name
		if pre != "" {
			sig += ":" + pre
		}
		p.failf(sig, map[string]any{"model_hex": hex.EncodeToString(trunc(t.m, 512)), "model_len": len(t.m)}, format, a...)
	}

	switch op {
	case opAppend, opPrepend, opAppendAsBlock, opPrependAsBlock, opReplace:
		d := p.data(arg, sel, 0)
		p.tr("r%d.%s(%d bytes %s nil=%v)", ti, name, len(d), c16Short(d), d == nil)
		if !grow(len(d) + 10) {
			break
		}
		p.guard(name, t, func() {
			switch op {
			case opAppend:
				t.c.Append(d)
			case opPrepend:
				t.c.Prepend(d)
			case opAppendAsBlock:
				t.c.AppendAsBlock(d)
			case opPrependAsBlock:
				t.c.PrependAsBlock(d)
			case opReplace:
				t.c.Replace(d)
			}
		})
		switch op {
		case opAppend:
			t.m = cat(t.m, d)
		case opPrepend:
			t.m = cat(d, t.m)
		case opAppendAsBlock:
			t.m = cat(t.m, refEncode(uint64(len(d))), d)
		case opPrependAsBlock:
			t.m = cat(refEncode(uint64(len(d))), d, t.m)
		case opReplace:
			t.m = cat(d)
			t.stale = true
		}

	case opAppendNumber, opPrependNumber, opAppendInt, opPrependInt:
		v := p.num(arg, t, s)
		p.tr("r%d.%s(%d)", ti, name, v)
		if !grow(10) {
			break
		}
		p.guard(name, t, func() {
			switch op {
			case opAppendNumber:
				t.c.AppendNumber(v)
			case opPrependNumber:
				t.c.PrependNumber(v)
			case opAppendInt:
				t.c.AppendInt(int(v))
			case opPrependInt:
				t.c.PrependInt(int(v))
			}
		})
		if op == opAppendNumber || op == opAppendInt {
			t.m = cat(t.m, refEncode(v))
		} else {
			t.m = cat(refEncode(v), t.m)
		}

	case opAppendContainer, opAppendContainerAsBlock:
		p.tr("r%d.%s(r%d holding %d)", ti, name, si, len(s.m))
		if !grow(len(s.m) + 10) {
			break
		}
		p.guard(name, t, func() {
			if op == opAppendContainer {
				t.c.AppendContainer(s.c)
			} else {
				t.c.AppendContainerAsBlock(s.c)
			}
		})
		if op == opAppendContainer {
			t.m = cat(t.m, s.m)
		} else {
			t.m = cat(t.m, refEncode(uint64(len(s.m))), s.m)
		}

	case opPrependLength:
		p.tr("r%d.PrependLength() holding %d", ti, len(t.m))
		p.guard(name, t, func() { t.c.PrependLength() })
		t.m = cat(refEncode(uint64(len(t.m))), t.m)

	case opCompileData:
		var got []byte
		p.tr("r%d.CompileData()", ti)
		if p.guard(name, t, func() { got = t.c.CompileData() }) {
			break
		}
		p.keep(name, got)
		if !bytes.Equal(got, t.m) {
			wrong("wrong-result", "", "CompileData() returned %d bytes %s, %d bytes %s are held", len(got), c16Short(got), len(t.m), c16Short(t.m))
		}

	case opPeek:
		n, cl := p.n(arg, t)
		c16stats.nclass[cl]++
		var got []byte
		p.tr("r%d.Peek(%d) holding %d", ti, n, len(t.m))
		if p.guard(name, t, func() { got = t.c.Peek(n) }) {
			break
		}
		p.keep(name, got)
		p.lastOut = len(got)
		switch {
		case len(got) > len(t.m) || !bytes.Equal(got, t.m[:len(got)]):
			wrong("wrong-result", "", "Peek(%d) returned %s, not a prefix of the held %s", n, c16Short(got), c16Short(t.m))
		case n <= 0 && len(got) != 0:
			wrong("wrong-result", "n-not-positive", "Peek(%d) returned %d bytes", n, len(got))
		case n > 0 && n <= len(t.m) && len(got) != n:
			wrong("wrong-result", "", "Peek(%d) returned %d bytes although %d are held", n, len(got), len(t.m))
		case n > 0 && len(got) > n:
			wrong("wrong-result", "", "Peek(%d) returned %d bytes", n, len(got))
		}
		if n > len(t.m) {
			oc = ocShort
		}

	case opPeekContainer, opGetAsContainer:
		n, cl := p.n(arg, t)
		c16stats.nclass[cl]++
		var nc *container.Container
		var err error
		p.tr("r%d.%s(%d) holding %d -> r%d", ti, name, n, len(t.m), si)
		if p.guard(name, t, func() {
			if op == opPeekContainer {
				nc = t.c.PeekContainer(n)
			} else {
				nc, err = t.c.GetAsContainer(n)
			}
		}) {
			break
		}
		failed := nc == nil || err != nil
		if op == opGetAsContainer && (nc == nil) != (err != nil) {
			wrong("wrong-result", "", "GetAsContainer(%d) returned container=%v error=%v", n, nc != nil, err)
			break
		}
		switch {
		case n >= 0 && n <= len(t.m):
			if failed {
				wrong("rejects", "", "%s(%d) failed although %d bytes are held", name, n, len(t.m))
				break
			}
			before := t.m
			if op == opGetAsContainer {
				t.m = t.m[n:]
			}
			setS(nc, before[:n])
		case failed:
			oc, errored = ocErr, true
		case n < 0:
			setS(nc, nil) // "yields nothing" is acceptable for a negative request
		default:
			wrong("accepts", "n-too-large", "%s(%d) succeeded although only %d bytes are held", name, n, len(t.m))
		}
		if p.fail == nil && !failed {
			p.observe(p.regs[si], name, false, "of-returned-container")
		}

	case opGet:
		n, cl := p.n(arg, t)
		c16stats.nclass[cl]++
		var got []byte
		var err error
		p.tr("r%d.Get(%d) holding %d", ti, n, len(t.m))
		if p.guard(name, t, func() { got, err = t.c.Get(n) }) {
			break
		}
		p.keep(name, got)
		switch {
		case n > len(t.m):
			if err == nil {
				wrong("accepts", "n-too-large", "Get(%d) succeeded with %d bytes although only %d are held", n, len(got), len(t.m))
			}
			oc, errored = ocErr, true
		case n <= 0:
			if err != nil {
				oc, errored = ocErr, true
			} else if len(got) != 0 {
				wrong("wrong-result", "n-not-positive", "Get(%d) returned %d bytes", n, len(got))
			}
		case err != nil:
			wrong("rejects", "", "Get(%d) failed (%v) although %d bytes are held", n, err, len(t.m))
		case !bytes.Equal(got, t.m[:n]):
			wrong("wrong-result", "", "Get(%d) returned %s, the next bytes are %s", n, c16Short(got), c16Short(t.m[:n]))
		default:
			t.m = t.m[n:]
		}

	case opGetAll:
		var got []byte
		p.tr("r%d.GetAll() holding %d", ti, len(t.m))
		if p.guard(name, t, func() { got = t.c.GetAll() }) {
			break
		}
		p.keep(name, got)
		if !bytes.Equal(got, t.m) {
			wrong("wrong-result", "", "GetAll() returned %d bytes %s, %d bytes %s are held", len(got), c16Short(got), len(t.m), c16Short(t.m))
		}
		t.m = nil

	case opGetMax:
		n, cl := p.n(arg, t)
		c16stats.nclass[cl]++
		var got []byte
		p.tr("r%d.GetMax(%d) holding %d", ti, n, len(t.m))
		if p.guard(name, t, func() { got = t.c.GetMax(n) }) {
			break
		}
		p.keep(name, got)
		k := n
		if k < 0 {
			k = 0
		}
		if k > len(t.m) {
			k = len(t.m)
			oc = ocShort
		}
		if !bytes.Equal(got, t.m[:k]) {
			wrong("wrong-result", "", "GetMax(%d) returned %d bytes %s, expected the first %d of the %d held", n, len(got), c16Short(got), k, len(t.m))
			break
		}
		t.m = t.m[k:]

	case opWriteToSlice:
		n, cl := p.n(arg, t)
		c16stats.nclass[cl]++
		if n < 0 {
			n = 0
		}
		if n > 4096 {
			n = 4096
		}
		dest := bytes.Repeat([]byte{canaryByte}, n+16)
		sl := dest[:n:n]
		if sel&0x10 != 0 {
			sl = dest[:n]
		}
		var wn int
		var emptied bool
		p.tr("r%d.WriteToSlice(len %d) holding %d", ti, n, len(t.m))
		if p.guard(name, t, func() { wn, emptied = t.c.WriteToSlice(sl) }) {
			break
		}
		k := n
		if k > len(t.m) {
			k = len(t.m)
		}
		if n > len(t.m) {
			oc = ocShort
		}
		switch {
		case wn != k:
			wrong("wrong-result", "", "WriteToSlice(slice of %d) reports %d bytes written, %d are held", n, wn, len(t.m))
		case !bytes.Equal(dest[:k], t.m[:k]):
			wrong("wrong-result", "", "WriteToSlice(slice of %d) wrote %s, the next bytes are %s", n, c16Short(dest[:k]), c16Short(t.m[:k]))
		case bytes.Count(dest[k:], []byte{canaryByte}) != len(dest)-k:
			wrong("wrong-result", "wrote-beyond", "WriteToSlice(slice of %d) modified bytes beyond the %d it reports", n, wn)
		case emptied != (len(t.m)-k == 0):
			wrong("wrong-result", "emptied-flag", "WriteToSlice(slice of %d) on %d held bytes reports emptied=%v", n, len(t.m), emptied)
		default:
			t.m = t.m[k:]
		}

	case opWriteAllTo:
		w := &c16Writer{limit: -1}
		mode := int(sel>>5) & 3
		switch mode {
		case 1:
			w.chunk = int(arg)%5 + 1
		case 2:
			w.limit = int(arg)
		}
		var err error
		p.tr("r%d.WriteAllTo(writer mode %d arg %d) holding %d", ti, mode, arg, len(t.m))
		if p.guard(name, t, func() { err = t.c.WriteAllTo(w) }) {
			break
		}
		switch {
		case mode == 2 && len(t.m) > w.limit:
			oc = ocErr
			if !errors.Is(err, errC16Writer) {
				wrong("wrong-result", "writer-error", "WriteAllTo returned %v although the writer failed", err)
			} else if !bytes.Equal(w.buf, t.m[:w.limit]) {
				wrong("wrong-result", "writer-error", "WriteAllTo wrote %s before the writer failed, expected %s", c16Short(w.buf), c16Short(t.m[:w.limit]))
			}
			errored = true
		case err != nil && mode == 1:
			oc, errored = ocErr, true // refusing a short-writing writer is acceptable
		case err != nil:
			wrong("rejects", "", "WriteAllTo returned %v with a writer that never fails", err)
		case !bytes.Equal(w.buf, t.m):
			wrong("wrong-result", "", "WriteAllTo wrote %d bytes %s, %d bytes %s are held", len(w.buf), c16Short(w.buf), len(t.m), c16Short(t.m))
		}

	case opGetNextBlock, opGetNextBlockAsContainer:
		v, pn, mustErr, minimal := refPrefix(t.m, 64)
		avail := uint64(0)
		if !mustErr {
			avail = uint64(len(t.m) - pn)
		}
		tooLong := !mustErr && v > avail
		p.tr("r%d.%s() holding %d, prefix value %d in %d bytes (mustErr=%v tooLong=%v) -> r%d", ti, name, len(t.m), v, pn, mustErr, tooLong, si)
		if tooLong && v > c16DangerLo && v < c16DangerHi {
			if !(sel&0x80 != 0 && p.c.spec.Kind == "plain" && v <= c16DangerMaxRun) {
				oc = ocSkipped
				break
			}
			c16stats.dangerousRun++
		}
		var got []byte
		var nc *container.Container
		var err error
		if p.guard(name, t, func() {
			if op == opGetNextBlock {
				got, err = t.c.GetNextBlock()
			} else {
				nc, err = t.c.GetNextBlockAsContainer()
			}
		}) {
			break
		}
		p.keep(name, got)
		if op == opGetNextBlockAsContainer && (nc == nil) != (err != nil) {
			wrong("wrong-result", "", "GetNextBlockAsContainer returned container=%v error=%v", nc != nil, err)
			break
		}
		switch {
		case err != nil:
			oc, errored = ocErr, true
			if !mustErr && !tooLong && minimal {
				wrong("rejects", "", "%s failed (%v) although a complete block of %d bytes is held (%d bytes in total)", name, err, v, len(t.m))
			}
		case mustErr:
			wrong("accepts", "malformed-prefix", "%s succeeded although the held bytes %s do not start with a complete varint that fits 64 bits", name, c16Short(t.m))
		case tooLong:
			pre := "length-above-held"
			if v > math.MaxInt64 {
				pre = "length-above-maxint"
			}
			wrong("accepts", pre, "%s succeeded (returned %d bytes) although the length prefix says %d and only %d bytes follow it", name, len(got)+c16ContLen(nc), v, avail)
		default:
			want := t.m[pn : pn+int(v)]
			if op == opGetNextBlock && !bytes.Equal(got, want) {
				wrong("wrong-result", "", "GetNextBlock returned %s, the block is %s", c16Short(got), c16Short(want))
				break
			}
			t.m = t.m[pn+int(v):]
			if op == opGetNextBlockAsContainer {
				setS(nc, want)
				p.observe(p.regs[si], name, false, "of-returned-container")
			}
		}

	case opGetNextN8, opGetNextN16, opGetNextN32, opGetNextN64:
		w := 64
		switch op {
		case opGetNextN8:
			w = 8
		case opGetNextN16:
			w = 16
		case opGetNextN32:
			w = 32
		}
		v, pn, mustErr, minimal := refPrefix(t.m, w)
		var got uint64
		var err error
		p.tr("r%d.%s() holding %d %s", ti, name, len(t.m), c16Short(trunc(t.m, 11)))
		if p.guard(name, t, func() {
			switch op {
			case opGetNextN8:
				var x uint8
				x, err = t.c.GetNextN8()
				got = uint64(x)
			case opGetNextN16:
				var x uint16
				x, err = t.c.GetNextN16()
				got = uint64(x)
			case opGetNextN32:
				var x uint32
				x, err = t.c.GetNextN32()
				got = uint64(x)
			default:
				got, err = t.c.GetNextN64()
			}
		}) {
			break
		}
		switch {
		case err != nil:
			oc, errored = ocErr, true
			if !mustErr && minimal {
				wrong("rejects", "", "%s failed (%v) although the held bytes start with the shortest encoding of %d", name, err, v)
			}
		case mustErr:
			wrong("accepts", "malformed-prefix", "%s returned %d although the held bytes %s do not start with a complete varint that fits %d bits", name, got, c16Short(trunc(t.m, 11)), w)
		case got != v:
			wrong("wrong-result", "", "%s returned %d, the held bytes %s encode %d", name, got, c16Short(trunc(t.m, 11)), v)
		default:
			t.m = t.m[pn:]
		}

	case opMarshalJSON:
		var got []byte
		var err error
		p.tr("r%d.MarshalJSON() holding %d", ti, len(t.m))
		if p.guard(name, t, func() { got, err = t.c.MarshalJSON() }) {
			break
		}
		var raw []byte
		if err != nil {
			wrong("rejects", "", "MarshalJSON failed: %v", err)
		} else if uerr := json.Unmarshal(got, &raw); uerr != nil || !bytes.Equal(raw, t.m) {
			wrong("wrong-result", "", "MarshalJSON returned %s which does not decode to the held bytes", c16Short(got))
		}

	case opUnmarshalJSON:
		var in []byte
		switch arg % 8 {
		case 7:
			in = [][]byte{[]byte("{"), []byte("123"), []byte(`"%%%"`), {}, []byte("nul"), []byte(`["a"]`), []byte(`"QQ`), []byte("{}")}[int(arg>>3)%8]
		case 6:
			in = []byte("null")
		default:
			in, _ = json.Marshal(p.data(arg>>1, 0, 0))
		}
		var ref []byte
		rerr := json.Unmarshal(in, &ref)
		var err error
		p.tr("r%d.UnmarshalJSON(%s) reference error=%v", ti, trunc(in, 40), rerr)
		if p.guard(name, t, func() { err = t.c.UnmarshalJSON(exact(in)) }) {
			break
		}
		switch {
		case err != nil:
			oc, errored = ocErr, true
		case rerr != nil:
			wrong("accepts", "invalid-json", "UnmarshalJSON(%q) succeeded, encoding/json rejects it for a byte slice (%v)", in, rerr)
		default:
			t.m = cat(ref)
			t.stale = true
		}

	case opReinit:
		p.regs[si] = p.newReg(arg)

	case opJSONTransfer:
		var j []byte
		var err, err2 error
		p.tr("r%d.MarshalJSON() -> r%d.UnmarshalJSON()", ti, si)
		if p.guard(name, t, func() { j, err = t.c.MarshalJSON() }) {
			break
		}
		if err != nil {
			wrong("rejects", "", "MarshalJSON failed: %v", err)
			break
		}
		s = p.regs[si]
		if p.guard("UnmarshalJSON", s, func() { err2 = s.c.UnmarshalJSON(j) }) {
			break
		}
		if err2 != nil {
			wrong("rejects", "", "UnmarshalJSON of MarshalJSON output failed: %v", err2)
			break
		}
		s.m = cat(t.m)
		s.stale = true
		name = "UnmarshalJSON"
	}

	c16stats.ops[op][oc]++
	if p.fail != nil {
		return
	}
	p.observe(p.regs[ti], name, errored, "")
	if si != ti {
		role := "other-container" // a container the operation only reads (or does not touch)
		switch op {
		case opPeekContainer, opGetAsContainer, opGetNextBlockAsContainer, opReinit, opJSONTransfer:
			role = ""
		}
		p.observe(p.regs[si], name, false, role)
	}
	p.recheck(name, false)
}

func c16ContLen(c *container.Container) (n int) {
	if c == nil {
		return 0
	}
	defer func() { _ = recover() }()
	return c.Length()
}

// run interprets the program.
func (p *c16Run) run() {
	prog := p.prog
	hdr := byte(0)
	if len(prog) > 0 {
		hdr = prog[0]
		prog = prog[1:]
	}
	p.step = 0
	p.regs[0] = p.newReg(hdr)
	p.regs[1] = &c16Reg{c: container.New()}
	p.regs[2] = &c16Reg{c: &container.Container{}}
	if p.fail == nil {
		p.observe(p.regs[0], "New", false, "")
	}
	nops := 0
	for len(prog) > 0 && nops < c16MaxOps && p.fail == nil {
		var ins [3]byte
		copy(ins[:], prog)
		if len(prog) >= 3 {
			prog = prog[3:]
		} else {
			prog = nil
		}
		p.step++
		nops++
		p.exec(int(ins[0])%c16NOps, ins[1], ins[2])
		for _, r := range p.regs {
			if int64(len(r.m)) > c16stats.maxLen {
				c16stats.maxLen = int64(len(r.m))
			}
		}
	}
	c16stats.steps += int64(nops)
	if int64(nops) > c16stats.maxOps {
		c16stats.maxOps = int64(nops)
	}
	if p.fail != nil {
		return
	}
	// every byte comes out exactly once: drain what is left and compare
	p.step++
	for i, r := range p.regs {
		var got []byte
		p.tr("final r%d.GetAll() holding %d", i, len(r.m))
		if p.guard("GetAll", r, func() { got = r.c.GetAll() }) {
			return
		}
		p.keep("GetAll", got)
		if !bytes.Equal(got, r.m) {
			p.failf("C16:wrong-result:GetAll:final-drain", nil, "draining the container returned %d bytes %s, the model holds %d bytes %s", len(got), c16Short(got), len(r.m), c16Short(r.m))
			return
		}
		r.m = nil
		p.observe(r, "GetAll", false, "")
		if p.fail != nil {
			return
		}
		c16stats.finalDrains++
	}
	// ... and nothing that was handed out has changed since
	p.recheck("GetAll (final drain)", true)
	if p.fail != nil {
		return
	}
	// aliasing monitor: nothing that was handed in has been modified
	for _, in := range p.ins {
		c16stats.aliasChecked++
		if !bytes.Equal(in.view, in.orig) {
			p.failf("C16:aliasing:input-modified", nil, "a byte slice handed to the container was modified: now %s, was %s", c16Short(in.view), c16Short(in.orig))
			return
		}
		if in.whole != nil && bytes.Count(in.whole, []byte{canaryByte}) < len(in.whole)-len(in.orig) {
			p.failf("C16:aliasing:wrote-around-input", nil, "bytes around a slice handed to the container were modified")
			return
		}
	}
}

// c16Case runs one program (guarded, journaled) and reports its failure, if any.
func c16Case(c *ctx, prog []byte) {
	b := c.b
	b.Eval(1)
	c16stats.progs++
	var p *c16Run
	c.call("c16.prog", prog, func() {
		p = &c16Run{c: c, prog: prog}
		p.run()
		if p.fail != nil {
			// run again with tracing for the witness (programs are deterministic)
			q := &c16Run{c: c, prog: prog, tracing: true}
			q.run()
			if q.fail != nil {
				p = q
			}
		}
	})
	if p == nil {
		return
	}
	if p.fail != nil {
		detail := map[string]any{"class": "c16.prog", "input_hex": hex.EncodeToString(prog), "build": c.spec.Kind,
			"failed_at_step": p.fail.step, "trace": p.trace}
		for k, v := range p.fail.extra {
			detail[k] = v
		}
		b.Violation(p.fail.sig, p.fail.what, detail)
		return
	}
	if len(prog) > 1 {
		b.Distinct([]byte("p"), prog)
	}
}

// ---------------------------------------------------------------------------------
// case generation

func c16ArgSet(op int, full bool) []byte {
	switch c16ArgKinds[op] {
	case argData:
		if full {
			out := []byte{}
			for a := 0; a < 80; a++ {
				switch l := a % 16; {
				case a < 16, l == 1, l == 2, l == 3, l == 7, l == 8, l == 13:
					out = append(out, byte(a))
				}
			}
			return out
		}
		return []byte{0, 1, 2, 4, 9, 16 + 3, 16 + 8, 32 + 2, 48 + 5, 64 + 7, 64 + 8}
	case argNum:
		out := make([]byte, 0, 30)
		for a := 0; a < 25; a++ {
			out = append(out, byte(a))
		}
		if full {
			out = append(out, 77, 131, 200, 250)
		}
		return out
	case argN:
		out := make([]byte, 0, 20)
		for a := 0; a < 16; a++ {
			out = append(out, byte(a))
		}
		if full {
			out = append(out, 20, 21, 23)
		}
		return out
	case argInit:
		out := []byte{0, 1, 2, 3, 4, 5, 6, 7}
		if full {
			out = append(out, 8+1, 8+2, 16+2, 8+4, 24+6)
		}
		return out
	case argJSON:
		return []byte{0, 2, 4, 6, 7, 15, 23, 31, 39, 47, 55, 63, 10}
	case argWriter:
		return []byte{0, 1, 3, 200}
	}
	return []byte{0}
}

func c16SelSet(op int, full bool) []byte {
	base := []byte{0x04}
	if full {
		base = []byte{0x04, 0x11}
	}
	if op == opWriteAllTo {
		var out []byte
		for _, s := range base {
			out = append(out, s, s|0x20, s|0x40)
		}
		return out
	}
	return base
}

// c16Alphabet lists every (opcode, selector, argument) used by the enumeration.
func c16Alphabet(full bool) [][3]byte {
	var out [][3]byte
	for op := 0; op < c16NOps; op++ {
		for _, s := range c16SelSet(op, full) {
			for _, a := range c16ArgSet(op, full) {
				out = append(out, [3]byte{byte(op), s, a})
			}
		}
	}
	return out
}

// c16Reduced is the alphabet of the 3-instruction enumeration.
func c16Reduced(full bool) [][3]byte {
	out := [][3]byte{
		{opAppend, 4, 5}, {opPrepend, 4, 5}, {opAppendAsBlock, 4, 4}, {opPrependAsBlock, 0x14, 4}, {opAppendNumber, 4, 15},
		{opPrependNumber, 4, 18}, {opPrependNumber, 4, 16}, {opPrependNumber, 4, 15}, {opPrependNumber, 4, 4}, {opPrependLength, 4, 0},
		{opReplace, 4, 5}, {opReplace, 4, 0}, {opCompileData, 4, 0}, {opPeek, 4, 1}, {opPeek, 4, 4}, {opPeekContainer, 4, 2},
		{opGet, 4, 1}, {opGet, 4, 2}, {opGet, 4, 4}, {opGet, 4, 5}, {opGetAll, 4, 0}, {opGetMax, 4, 1}, {opGetMax, 4, 4},
		{opGetMax, 4, 8}, {opGetAsContainer, 4, 1}, {opGetAsContainer, 4, 9}, {opWriteToSlice, 4, 1}, {opWriteToSlice, 4, 4},
		{opGetNextBlock, 4, 0}, {opGetNextBlockAsContainer, 4, 0}, {opGetNextN8, 4, 0}, {opGetNextN64, 4, 0},
		{opAppendContainer, 4, 0}, {opMarshalJSON, 4, 0}, {opJSONTransfer, 4, 0}, {opUnmarshalJSON, 4, 4}, {opReinit, 0, 0},
		{opAppend, 1, 5}, {opAppendContainer, 1, 0}, {opGetAll, 1, 0},
	}
	if full {
		out = append(out, [][3]byte{{opAppend, 4, 0}, {opAppend, 4, 1}, {opPrepend, 4, 0}, {opAppendInt, 4, 17}, {opPrependInt, 4, 4},
			{opAppendContainerAsBlock, 4, 0}, {opPeek, 4, 7}, {opPeekContainer, 4, 4}, {opPeekContainer, 4, 9}, {opGetAsContainer, 4, 4},
			{opGetAsContainer, 4, 5}, {opGetAsContainer, 4, 0}, {opWriteToSlice, 4, 0}, {opWriteToSlice, 4, 2}, {opWriteAllTo, 0x44, 1},
			{opGetNextN16, 4, 0}, {opGetNextN32, 4, 0}, {opUnmarshalJSON, 4, 7}, {opUnmarshalJSON, 4, 6}, {opReinit, 0, 3}, {opReinit, 4, 1},
			{opPrependNumber, 4, 14}, {opPrependNumber, 4, 21}, {opGet, 4, 9}, {opGet, 4, 0}, {opGetMax, 4, 5}}...)
	}
	return out
}

var c16Styles = [5][]int{
	nil, // uniform
	{opAppend, opAppend, opPrepend, opAppendAsBlock, opPrependAsBlock, opAppendNumber, opPrependNumber, opPrependLength, opGet, opGet, opGetMax,
		opGetAll, opPeek, opWriteToSlice, opWriteToSlice, opGetNextBlock, opGetNextN64, opCompileData, opReplace, opGetAsContainer},
	{opAppendAsBlock, opAppendAsBlock, opPrependAsBlock, opPrependLength, opPrependLength, opAppendNumber, opPrependNumber, opPrependNumber, opAppendInt, opPrependInt,
		opGetNextBlock, opGetNextBlock, opGetNextBlockAsContainer, opGetNextN8, opGetNextN16, opGetNextN32, opGetNextN64, opAppend, opPrepend, opGet, opAppendContainerAsBlock},
	{opAppend, opPrepend, opAppendContainer, opAppendContainer, opAppendContainerAsBlock, opPeekContainer, opPeekContainer, opGetAsContainer, opGetAsContainer,
		opGetNextBlockAsContainer, opJSONTransfer, opReinit, opReplace, opUnmarshalJSON, opMarshalJSON, opCompileData, opGetAll, opGet, opWriteToSlice, opAppendAsBlock},
	nil, // 4: many tiny compartments + small reads (c16GenSmallReads)
}

// c16TinyAppends are Append/Prepend instructions with 1..3 byte slices.
var c16TinyArgs = []byte{2, 3, 4, 16 + 2, 32 + 3, 48 + 4, 2, 3}

// c16SmallReads is the alphabet of reads of 1..10 bytes (and the number / block readers,
// which look ahead up to 10 bytes).
var c16SmallReads = [][3]byte{
	{opGet, 4, 1}, {opGet, 4, 10}, {opGet, 4, 13}, {opGet, 4, 14}, {opGet, 4, 16 + 4}, {opGet, 4, 16 + 5}, {opGet, 4, 16 + 7},
	{opGetMax, 4, 10}, {opGetMax, 4, 13}, {opGetMax, 4, 14}, {opGetMax, 4, 16 + 6}, {opPeek, 4, 10}, {opPeek, 4, 13}, {opPeek, 4, 14}, {opPeek, 4, 16 + 9},
	{opGetNextN8, 4, 0}, {opGetNextN16, 4, 0}, {opGetNextN32, 4, 0}, {opGetNextN64, 4, 0}, {opGetNextBlock, 4, 0}, {opGetAll, 4, 0},
	{opPrependNumber, 4, 2}, {opPrependNumber, 4, 4}, {opAppend, 4, 3}, {opPrepend, 4, 2}, {opWriteToSlice, 4, 13},
}

// c16GenSmallReads: a container made of many 1..3 byte compartments, then a history of
// many small reads across the compartment boundaries.
func c16GenSmallReads(r *vlib.Rand) []byte {
	prog := []byte{vlib.Pick(r, byte(0), 7, 2, 5, 3)}
	for i := r.Range(6, 24); i > 0; i-- {
		op := byte(opAppend)
		if r.Chance(1, 5) {
			op = opPrepend
		}
		prog = append(prog, op, 0x04, c16TinyArgs[r.Intn(len(c16TinyArgs))])
	}
	for i := r.Range(4, 30); i > 0; i-- {
		x := c16SmallReads[r.Intn(len(c16SmallReads))]
		arg := x[2]
		if (x[0] == opGet || x[0] == opGetMax || x[0] == opPeek) && r.Chance(1, 2) {
			arg = byte(16 + r.Range(1, 10)) // 1..10 bytes (modulo what is held)
		}
		prog = append(prog, x[0], x[1], arg)
	}
	return prog
}

func c16GenProg(r *vlib.Rand) []byte {
	nops := r.Range(1, 40)
	if r.Chance(1, 3) {
		nops = r.Range(1, 8)
	}
	prog := make([]byte, 0, 1+3*nops)
	prog = append(prog, byte(r.Intn(256)))
	style := r.Intn(5)
	if style == 4 {
		return c16GenSmallReads(r)
	}
	for i := 0; i < nops; i++ {
		var op int
		if st := c16Styles[style]; st != nil && !r.Chance(1, 6) {
			op = st[r.Intn(len(st))]
		} else {
			op = r.Intn(c16NOps)
		}
		sel := byte(r.Intn(128))
		if r.Chance(1, 2) {
			sel &^= 0x0f // stay on register 0
			if r.Chance(1, 2) {
				sel |= 0x04
			}
		}
		arg := byte(r.Intn(256))
		switch c16ArgKinds[op] {
		case argN:
			if r.Chance(7, 10) {
				arg = byte(r.Intn(16))
			}
		case argNum:
			if r.Chance(6, 10) {
				arg = byte(r.Intn(25))
			}
		case argData:
			if r.Chance(1, 2) {
				arg = byte(r.Intn(80))
				if arg%16 >= 14 && r.Chance(3, 4) {
					arg -= 6
				}
			}
		}
		prog = append(prog, byte(op), sel, arg)
	}
	return prog
}

func runC16(c *ctx) {
	s, ns := c.spec.Shard, c.spec.NShards
	full := c.thorough()
	idx := 0
	mine := func() bool { idx++; return (idx-1)%ns == s }

	if s == 0 {
		for _, prog := range [][]byte{
			{9, opPrependLength, 4, 0, opGetNextBlock, 4, 0},
			{2, opGetAsContainer, 4, 9, opAppendContainer, 1, 0, opGetAll, 1, 0},
			{9, opPrependNumber, 4, 18, opGetNextBlock, 4, 0},
		} {
			q := &c16Run{c: c, prog: prog, tracing: true}
			c.call("c16.prog", prog, q.run)
			res := "consistent with the byte-queue model"
			if q.fail != nil {
				res = q.fail.sig + ": " + q.fail.what
			}
			c.b.Sample(map[string]any{"class": "c16.prog", "program_hex": hex.EncodeToString(prog), "trace": q.trace, "result": res})
		}
		// dedicated cases: a length prefix of 2^30 in front of a few bytes, read with the
		// "execute even though a trusting container would allocate it" selector bit
		for _, op := range []byte{opGetNextBlock, opGetNextBlockAsContainer} {
			c16Case(c, []byte{1, opPrependNumber, 0x04, 24, op, 0x84, 0})
		}
	}

	hdrs := []byte{0, 1, 2, 3, 4, 5, 6, 7}
	// (1) all 1-instruction programs with every argument byte
	for _, h := range hdrs {
		for op := 0; op < c16NOps; op++ {
			for _, sel := range c16SelSet(op, true) {
				for a := 0; a < 256; a++ {
					if mine() {
						c16Case(c, []byte{h, byte(op), sel, byte(a)})
					}
				}
			}
		}
	}
	// (2) all 2-instruction programs over the argument classes
	alpha := c16Alphabet(full)
	for _, h := range hdrs {
		for _, x := range alpha {
			for _, y := range alpha {
				if mine() {
					c16Case(c, []byte{h, x[0], x[1], x[2], y[0], y[1], y[2]})
				}
			}
		}
	}
	// (3) 3-instruction programs over the reduced alphabet
	red := c16Reduced(full)
	h3 := []byte{0, 1, 2, 6}
	if full {
		h3 = hdrs
	}
	for _, h := range h3 {
		for _, x := range red {
			for _, y := range red {
				for _, z := range red {
					if mine() {
						c16Case(c, []byte{h, x[0], x[1], x[2], y[0], y[1], y[2], z[0], z[1], z[2]})
					}
				}
			}
		}
	}
	// (3b) a container of ten 1..3 byte compartments, then every pair and triple of small reads
	tiny := []byte{7}
	for i := 0; i < 10; i++ {
		tiny = append(tiny, opAppend, 0x04, c16TinyArgs[i%len(c16TinyArgs)])
	}
	for _, x := range c16SmallReads {
		for _, y := range c16SmallReads {
			if mine() {
				c16Case(c, cat(tiny, x[:], y[:]))
			}
			for _, z := range c16SmallReads {
				if mine() {
					c16Case(c, cat(tiny, x[:], y[:], z[:]))
				}
			}
		}
	}
	// (4) PRNG programs
	r := c.rand("prog")
	n := c.n(240000, 2400000) / ns
	for i := 0; i < n; i++ {
		c16Case(c, c16GenProg(r))
	}
	c16Flush(c)
}

func c16Flush(c *ctx) {
	b, st := c.b, &c16stats
	b.Count("programs", st.progs)
	b.Count("steps", st.steps)
	b.Count("final_drains_compared", st.finalDrains)
	b.Count("input_slices_checked_unmodified", st.aliasChecked)
	b.Count("returned_slices_rechecked_unchanged", st.keptChecks)
	b.Count("error_then_content_unchanged_checks", st.errUnchanged)
	b.Count("dangerous_lengths_executed", st.dangerousRun)
	b.Max("max_model_length", st.maxLen)
	b.Max("max_program_instructions", st.maxOps)
	for op := 0; op < c16NOps; op++ {
		for o := 0; o < nOutcomes; o++ {
			if st.ops[op][o] > 0 {
				b.Count("op."+c16OpNames[op]+"."+c16OutcomeNames[o], st.ops[op][o])
			}
		}
	}
	for k, v := range st.inits {
		if v > 0 {
			b.Count(fmt.Sprintf("create_mode.%d", k), v)
		}
	}
	for k, v := range st.nclass {
		if v > 0 {
			b.Count(fmt.Sprintf("length_class.%02d", k), v)
		}
	}
}
