package main

import (
	"bytes"
	"encoding/binary"
	"encoding/hex"
	"fmt"
	"math"
	"math/big"

	"github.com/safing/portbase/formats/varint"

	"verifharness/internal/vlib"
)

// C10 — varint pack/unpack are exact inverses with exact byte accounting.
//
// Reference: an independent LEB128 coder (refEncode/refDecode below, arbitrary
// precision so that overflow is decided exactly) plus encoding/binary as a second
// opinion for the encoder.

func init() {
	props["C10"] = &propImpl{
		shards: func(cfg vlib.Cfg) int { return cfg.N(8, 32) },
		run:    runC10,
		rule: "values: all 2^8 and 2^16 values exhaustively, uint32/uint64 within +-2 of every 7-bit group boundary, powers of two +-1, PRNG values; " +
			"byte strings: exhaustive up to length 2 (quick) / 3 (thorough), structured continuations and length prefixes up to 2^64-1, PRNG strings. " +
			"A case is one (function, input); distinct = distinct (class,input) pairs; non-trivial = the reference decoder classifies the input (ok / truncated / overflow / block-too-long) and the portbase result was compared against it",
		finish: func(cfg vlib.Cfg, r *vlib.Report) {
			r.Set("exhaustive_subspaces", []string{"Pack8/Unpack8 over all 2^8 values", "Pack16/Unpack16 over all 2^16 values",
				fmt.Sprintf("Unpack8/16/32/64 + GetNextBlock over all byte strings of length <= %d", cfg.N(2, 3))})
			r.Floor(r.Counter("roundtrips") >= int64(cfg.N(100000, 1000000)), "roundtrips=%d", r.Counter("roundtrips"))
			r.Floor(r.Counter("decode_inputs") >= int64(cfg.N(100000, 1000000)), "decode_inputs=%d", r.Counter("decode_inputs"))
			r.Floor(r.Counter("ref_ok") > 0 && r.Counter("ref_truncated") > 0 && r.Counter("ref_overflow") > 0 && r.Counter("block_too_long") > 0,
				"reference classes not all seen")
			r.Assume("reference decoder = standard unsigned LEB128 (least-significant group first, bit 7 = continuation), arbitrary precision")
		},
	}
	classes["c10.value"] = func(c *ctx, in []byte) {
		if len(in) >= 8 {
			c10Value(c, binary.LittleEndian.Uint64(in))
		}
	}
	classes["c10.bytes"] = c10Bytes
}

// refEncode is the shortest standard base-128 encoding.
func refEncode(x uint64) []byte {
	var out []byte
	for {
		b := byte(x & 0x7f)
		x >>= 7
		if x != 0 {
			out = append(out, b|0x80)
		} else {
			return append(out, b)
		}
	}
}

type refStatus int

const (
	refOK refStatus = iota
	refTruncated
)

// refDecode decodes one LEB128 integer with arbitrary precision.
func refDecode(in []byte) (val *big.Int, n int, st refStatus) {
	val = new(big.Int)
	for i, b := range in {
		g := new(big.Int).SetUint64(uint64(b & 0x7f))
		g.Lsh(g, uint(7*i))
		val.Or(val, g)
		if b&0x80 == 0 {
			return val, i + 1, refOK
		}
	}
	return nil, 0, refTruncated
}

func u64le(x uint64) []byte { var b [8]byte; binary.LittleEndian.PutUint64(b[:], x); return b[:] }

func runC10(c *ctx) {
	s, ns := c.spec.Shard, c.spec.NShards
	if s == 0 {
		for _, x := range []uint64{131, 16384, math.MaxUint64} {
			p := varint.Pack64(x)
			v, n, err := varint.Unpack64(p)
			c.b.Sample(map[string]any{"class": "c10.value", "x": x, "Pack64": hex.EncodeToString(p), "Unpack64": []any{v, n, fmt.Sprint(err)}, "reference": hex.EncodeToString(refEncode(x))})
		}
		for _, in := range [][]byte{{0x83, 0x01, 0x55}, {0xff, 0xff, 0xff, 0xff, 0xff, 0xff, 0xff, 0xff, 0x7f, 0x42}, {0x80}} {
			_, tot, err := varint.GetNextBlock(exact(in))
			v8, n8, e8 := varint.Unpack8(exact(in))
			rv, rn, rst := refDecode(in)
			c.b.Sample(map[string]any{"class": "c10.bytes", "input_hex": hex.EncodeToString(in), "GetNextBlock": []any{tot, fmt.Sprint(err)},
				"Unpack8": []any{v8, n8, fmt.Sprint(e8)}, "reference": []any{fmt.Sprint(rv), rn, int(rst)}})
		}
	}
	// (1) exhaustive narrow widths, split over shards
	for x := s; x < 1<<16; x += ns {
		c10Value(c, uint64(x))
	}
	// (2) boundary values (shard 0) and random values
	if s == 0 {
		for g := 0; g <= 10; g++ {
			for d := -2; d <= 2; d++ {
				var v uint64
				if g*7 >= 64 {
					v = math.MaxUint64
				} else {
					v = uint64(1) << uint(g*7)
				}
				c10Value(c, v+uint64(d))
			}
		}
		for sh := 0; sh < 64; sh++ {
			for d := -1; d <= 1; d++ {
				c10Value(c, (uint64(1)<<uint(sh))+uint64(d))
			}
		}
		c10Value(c, math.MaxUint64)
		c10Value(c, math.MaxUint32)
	}
	r := c.rand("values")
	nv := c.n(100000, 1000000) / ns
	for i := 0; i < nv; i++ {
		c10Value(c, r.Uint64Boundary())
	}
	// (3) byte strings: exhaustive small lengths, split over shards by first byte
	maxLen := c.n(2, 3)
	if s == 0 {
		c10Bytes(c, nil)
	}
	for b0 := s; b0 < 256; b0 += ns {
		c10Bytes(c, []byte{byte(b0)})
		for b1 := 0; b1 < 256; b1++ {
			c10Bytes(c, []byte{byte(b0), byte(b1)})
			if maxLen >= 3 {
				for b2 := 0; b2 < 256; b2++ {
					c10Bytes(c, []byte{byte(b0), byte(b1), byte(b2)})
				}
			}
		}
	}
	// (4) structured longer strings
	if s == 0 {
		for n := 1; n <= 12; n++ {
			for _, last := range []byte{0x00, 0x01, 0x02, 0x7f, 0x80, 0xff} {
				for _, fill := range []byte{0x80, 0xff, 0x81} {
					in := bytes.Repeat([]byte{fill}, n-1)
					in = append(in, last)
					c10Bytes(c, in)
					c10Bytes(c, append(append([]byte{}, in...), 0x55, 0x66))
				}
			}
		}
		// every length-prefix class in front of short bodies
		var prefixes []uint64
		for g := 0; g <= 9; g++ {
			for d := -1; d <= 1; d++ {
				prefixes = append(prefixes, (uint64(1)<<uint(g*7))+uint64(d))
			}
		}
		prefixes = append(prefixes, 1<<31, 1<<31-1, 1<<32, 1<<62, 1<<63-1, 1<<63, 1<<63+1, math.MaxUint64-10, math.MaxUint64-9,
			math.MaxUint64-1, math.MaxUint64, 0, 1, 2, 3, 4, 5)
		for _, p := range prefixes {
			for _, body := range []int{0, 1, 2, 5, 130} {
				in := append(refEncode(p), bytes.Repeat([]byte{0x42}, body)...)
				c10Bytes(c, in)
			}
		}
	}
	rb := c.rand("bytes")
	nb := c.n(60000, 600000) / ns
	for i := 0; i < nb; i++ {
		var in []byte
		switch rb.Intn(4) {
		case 0:
			in = rb.Bytes(rb.Range(0, 14))
		case 1: // valid varint followed by a body that may be short, exact or long
			l := uint64(rb.Intn(40))
			if rb.Chance(1, 5) {
				l = rb.Uint64Boundary()
			}
			in = refEncode(l)
			in = append(in, rb.Bytes(rb.Intn(45))...)
		case 2: // continuation-heavy
			n := rb.Range(1, 12)
			in = rb.Bytes(n)
			for j := 0; j < n-1; j++ {
				in[j] |= 0x80
			}
			if rb.Bool() {
				in[n-1] &= 0x7f
			}
		default:
			in = append(refEncode(rb.Uint64Boundary()), rb.Bytes(rb.Intn(4))...)
		}
		c10Bytes(c, in)
	}
}

// c10Value checks pack/unpack inverses for one value in every width that holds it.
func c10Value(c *ctx, x uint64) {
	b := c.b
	in := u64le(x)
	b.Eval(1)
	b.Count("roundtrips", 1)
	ref := refEncode(x)
	var tmp [binary.MaxVarintLen64]byte
	if second := tmp[:binary.PutUvarint(tmp[:], x)]; !bytes.Equal(ref, second) {
		b.Violation("C10:harness:reference-disagree", "harness reference encoders disagree", map[string]any{"x": x})
		return
	}
	bad := func(kind, fn string, what string) {
		b.Violation("C10:"+kind+":"+fn, what, map[string]any{"class": "c10.value", "input_hex": hex.EncodeToString(in), "x": x, "ref": hex.EncodeToString(ref)})
	}
	check := func(fn string, packed []byte, got uint64, n int, err error) {
		if !bytes.Equal(packed, ref) {
			bad("pack-not-shortest", fn, fmt.Sprintf("Pack%s(%d)=%x, shortest standard varint is %x", fn, x, packed, ref))
		}
		if err != nil {
			bad("roundtrip-error", fn, fmt.Sprintf("Unpack%s(Pack%s(%d)) returned error %v", fn, fn, x, err))
			return
		}
		if got != x {
			bad("roundtrip-value", fn, fmt.Sprintf("Unpack%s(Pack%s(%d)) = %d", fn, fn, x, got))
		}
		if n != len(packed) {
			bad("roundtrip-count", fn, fmt.Sprintf("Unpack%s(Pack%s(%d)) reports %d consumed bytes, packed form has %d", fn, fn, x, n, len(packed)))
		}
	}
	c.call("c10.value", in, func() {
		if x <= math.MaxUint8 {
			p := varint.Pack8(uint8(x))
			v, n, err := varint.Unpack8(exact(p))
			check("8", p, uint64(v), n, err)
		}
		if x <= math.MaxUint16 {
			p := varint.Pack16(uint16(x))
			v, n, err := varint.Unpack16(exact(p))
			check("16", p, uint64(v), n, err)
		}
		if x <= math.MaxUint32 {
			p := varint.Pack32(uint32(x))
			v, n, err := varint.Unpack32(exact(p))
			check("32", p, uint64(v), n, err)
		}
		p := varint.Pack64(x)
		v, n, err := varint.Unpack64(exact(p))
		check("64", p, v, n, err)
		if es := varint.EncodedSize(x); es != len(p) {
			bad("encoded-size", "EncodedSize", fmt.Sprintf("EncodedSize(%d)=%d but Pack64 gives %d bytes", x, es, len(p)))
		}
		// PrependLength / GetNextBlock inverse on a body whose length is x (bounded)
		if x <= 70000 {
			body := bytes.Repeat([]byte{byte(x)}, int(x))
			pl := varint.PrependLength(body)
			if !bytes.Equal(pl[:len(ref)], ref) || !bytes.Equal(pl[len(ref):], body) {
				bad("prepend-length", "PrependLength", "PrependLength output is not varint(len)+data")
			}
			withTail := append(append([]byte{}, pl...), 0xEE, 0xEE)
			blk, tot, err := varint.GetNextBlock(withTail)
			if err != nil || !bytes.Equal(blk, body) || tot != len(pl) {
				bad("block-roundtrip", "GetNextBlock", fmt.Sprintf("GetNextBlock(PrependLength(data of %d bytes)+tail) = (%d bytes, %d, %v)", x, len(blk), tot, err))
			}
			// the same body handed over in other shapes: a nil slice for the empty body, and a
			// view into a larger array (spare capacity behind it, which must stay untouched)
			if x == 0 {
				pn := varint.PrependLength(nil)
				if !bytes.Equal(pn, ref) {
					bad("prepend-length", "PrependLength", fmt.Sprintf("PrependLength(nil) = %x, want the length prefix %x of an empty block", pn, ref))
				}
				blk, tot, err := varint.GetNextBlock(append(append([]byte{}, pn...), 0xEE))
				if err != nil || len(blk) != 0 || tot != len(ref) {
					bad("block-roundtrip", "GetNextBlock", fmt.Sprintf("GetNextBlock(PrependLength(nil)+tail) = (%d bytes, %d, %v)", len(blk), tot, err))
				}
			}
			if x <= 4096 {
				arr := make([]byte, int(x)+16)
				for i := range arr {
					arr[i] = 0xC3
				}
				view := arr[4 : 4+int(x)]
				copy(view, body)
				pv := varint.PrependLength(view)
				if !bytes.Equal(pv, pl) {
					bad("prepend-length", "PrependLength", "PrependLength of a view with spare capacity differs from PrependLength of an exact copy")
				}
				for i := 0; i < 4; i++ {
					if arr[i] != 0xC3 {
						bad("prepend-length-writes", "PrependLength", "PrependLength wrote in front of its argument")
					}
				}
				for i := 4 + int(x); i < len(arr); i++ {
					if arr[i] != 0xC3 {
						bad("prepend-length-writes", "PrependLength", "PrependLength wrote behind its argument")
					}
				}
				if !bytes.Equal(view, body) {
					bad("prepend-length-writes", "PrependLength", "PrependLength changed its argument")
				}
			}
		}
	})
	b.Distinct([]byte("v"), in)
}

// c10Bytes feeds one byte string to every decoder, twice (exact-capacity copy and
// canary-embedded view), and compares with the reference.
func c10Bytes(c *ctx, in []byte) {
	b := c.b
	b.Eval(1)
	b.Count("decode_inputs", 1)
	rv, rn, rst := refDecode(in)
	switch rst {
	case refOK:
		b.Count("ref_ok", 1)
		if rv.BitLen() > 64 {
			b.Count("ref_overflow", 1)
		}
	case refTruncated:
		b.Count("ref_truncated", 1)
	}
	bad := func(kind, fn, what string) {
		b.Violation("C10:"+kind+":"+fn, what, map[string]any{"class": "c10.bytes", "input_hex": hex.EncodeToString(in), "build": c.spec.Kind})
	}
	type unp func([]byte) (uint64, int, error)
	fns := []struct {
		name string
		bits int
		f    unp
	}{
		{"Unpack8", 8, func(x []byte) (uint64, int, error) { v, n, e := varint.Unpack8(x); return uint64(v), n, e }},
		{"Unpack16", 16, func(x []byte) (uint64, int, error) { v, n, e := varint.Unpack16(x); return uint64(v), n, e }},
		{"Unpack32", 32, func(x []byte) (uint64, int, error) { v, n, e := varint.Unpack32(x); return uint64(v), n, e }},
		{"Unpack64", 64, func(x []byte) (uint64, int, error) { v, n, e := varint.Unpack64(x); return v, n, e }},
	}
	for _, variant := range []string{"exact", "embedded"} {
		var view []byte
		if variant == "exact" {
			view = exact(in)
		} else {
			view, _, _ = embed(in)
		}
		for _, fn := range fns {
			fn := fn
			c.call("c10.bytes", in, func() {
				v, n, err := fn.f(view)
				if err != nil {
					return // "or return an error" — always acceptable
				}
				// success: must-error classes first
				if rst == refTruncated {
					bad("accepts-truncated", fn.name, fmt.Sprintf("%s(%x) succeeded (%d,%d) on a truncated varint", fn.name, in, v, n))
					return
				}
				if rv.BitLen() > fn.bits {
					bad("accepts-too-large", fn.name, fmt.Sprintf("%s(%x) succeeded with %d although the encoded integer %s exceeds %d bits", fn.name, in, v, rv.String(), fn.bits))
					return
				}
				if n < 0 || n > len(in) {
					bad("count-out-of-input", fn.name, fmt.Sprintf("%s(%x) reports %d consumed bytes of %d", fn.name, in, n, len(in)))
					return
				}
				if v != rv.Uint64() {
					bad("wrong-value", fn.name, fmt.Sprintf("%s(%x) = %d, reference decoding is %s", fn.name, in, v, rv.String()))
				}
				if n != rn {
					bad("wrong-count", fn.name, fmt.Sprintf("%s(%x) reports %d consumed bytes, the encoded integer occupies %d", fn.name, in, n, rn))
				}
			})
		}
		// GetNextBlock
		c.call("c10.bytes", in, func() {
			blk, tot, err := varint.GetNextBlock(view)
			tooLong := rst == refOK && (rv.BitLen() > 63 || rv.Uint64() > uint64(len(in)-rn))
			if tooLong && variant == "exact" {
				b.Count("block_too_long", 1)
			}
			if err != nil {
				return
			}
			if rst == refTruncated {
				bad("accepts-truncated", "GetNextBlock", fmt.Sprintf("GetNextBlock(%x) succeeded on a truncated length prefix", in))
				return
			}
			if tooLong {
				bad("accepts-block-too-long", "GetNextBlock", fmt.Sprintf("GetNextBlock(%x) succeeded (len %d, total %d) although the block length %s exceeds the %d remaining bytes", in, len(blk), tot, rv.String(), len(in)-rn))
				return
			}
			want := int(rv.Uint64())
			if tot != rn+want || tot < 0 || tot > len(in) {
				bad("wrong-count", "GetNextBlock", fmt.Sprintf("GetNextBlock(%x) total=%d, want %d", in, tot, rn+want))
				return
			}
			if len(blk) != want || !bytes.Equal(blk, in[rn:rn+want]) {
				bad("wrong-value", "GetNextBlock", fmt.Sprintf("GetNextBlock(%x) block=%x want %x", in, blk, in[rn:rn+want]))
			}
			if !inside(blk, view, len(in)) {
				bad("slice-outside-input", "GetNextBlock", "returned block does not lie inside the input")
			}
			if variant == "embedded" && bytes.IndexByte(blk, canaryByte) >= 0 && bytes.IndexByte(in, canaryByte) < 0 {
				bad("canary-in-output", "GetNextBlock", "returned block contains bytes from outside the input")
			}
		})
	}
	b.Distinct([]byte("b"), in)
}
