package main

import (
	"bytes"
	"compress/gzip"
	"encoding/binary"
	"encoding/hex"
	"encoding/json"
	"errors"
	"fmt"
	"hash/fnv"
	"io"
	"math"
	"mime"
	"net/http"
	"net/http/httptest"
	"os"
	"path/filepath"
	"reflect"
	"runtime"
	"runtime/debug"
	"strings"
	"sync"
	"syscall"
	"time"
	"unicode/utf8"

	"github.com/safing/portbase/database/record"
	"github.com/safing/portbase/formats/dsd"

	"verifharness/internal/vlib"
)

// C09 — DSD dump/load round-trips in every format, compressed or over HTTP.
//
// Three case classes, each identified by (class, input bytes) so that --replay re-runs it:
//   c09.value  input = 8-byte case seed -> one generated value, dumped and loaded in every
//              format it is representable in x {no compression, GZIP, AUTO compression}
//   c09.http   input = 8-byte case seed -> one value, one format, one Accept header;
//              request direction and response direction through httptest (recorder and,
//              for a part of the cases, a real loopback server)
//   c09.bytes  input = a byte string fed to every load entry point and several targets
//
// Equality is reflect.DeepEqual after normalising nil == empty for slices and maps.

func init() {
	props["C09"] = &propImpl{
		shards: func(cfg vlib.Cfg) int { return cfg.N(16, 32) },
		run:    runC09,
		rule: "c09.value: PRNG values of the harness schema (nested structs, all integer widths within +-2^53, finite floats, valid-UTF-8 strings incl. YAML-significant and non-ASCII ones, byte slices, string slices, maps, pointers, nil and empty values; record.Meta and a hand-written GenCode type; raw byte slices) x formats {JSON,CBOR,MsgPack,YAML,GenCode,RAW,AUTO} the value is representable in x compression {none,GZIP,AUTO}; " +
			"c09.value also: highly compressible values (runs, zero-filled slices, thousands of identical entries; 16 KiB - 1 MiB serialized) with GZIP and AUTO compression in every format; c09.http: responses whose writer already carries Content-Type value(s) before the dump; value x format x Accept header from a media-type grammar (supported, alias, wildcard and unsupported ranges, parameters, q-values, case, optional whitespace), request and response direction; " +
			"c09.seq: multi-step histories: k values dumped through Dump / DumpIndent / DumpAndCompress / MimeDump / DumpToHTTPRequest / DumpToHTTPResponse, returned slices kept without copying and hashed at once, then more dumps, then every blob re-hashed (a returned slice must never change) and loaded and compared with its own value; a part of the histories with two goroutines dumping concurrently; c09.bytes: truncations / bit flips / splices of valid dumps, identifier-prefixed random bytes, gzip-wrapped garbage, well-formed compressed streams (bare, identified, nested, multi-member, four encodings) around empty / identifier-only / attack / truncated content, decoder length-header attacks, random bytes (<= 4 KiB) into 7 target types through Load, LoadAsFormat, DecompressAndLoad, MimeLoad. " +
			"distinct = distinct (class,input) pairs; non-trivial = at least one dump succeeded and its load was compared (value/http) or at least one entry point returned (bytes)",
		finish: func(cfg vlib.Cfg, r *vlib.Report) {
			r.Floor(r.Counter("roundtrips") >= int64(cfg.N(20000, 150000)), "roundtrips=%d", r.Counter("roundtrips"))
			r.Floor(r.Counter("http_roundtrips") >= int64(cfg.N(4000, 40000)), "http_roundtrips=%d", r.Counter("http_roundtrips"))
			r.Floor(r.Counter("hostile_inputs") >= int64(cfg.N(10000, 400000)), "hostile_inputs=%d", r.Counter("hostile_inputs"))
			r.Floor(r.SeenCount("format_x_compression") >= 21, "format x compression combinations executed: %d of 21", r.SeenCount("format_x_compression"))
			r.Floor(r.Counter("seq_blobs") >= int64(cfg.N(8000, 60000)), "seq_blobs=%d", r.Counter("seq_blobs"))
			r.Floor(r.SeenCount("seq_entry_points") >= 6, "dump entry points in multi-step histories: %d of 6", r.SeenCount("seq_entry_points"))
			r.Floor(r.Counter("compressible_roundtrips_attempted") >= int64(cfg.N(400, 3000)), "compressible_roundtrips_attempted=%d", r.Counter("compressible_roundtrips_attempted"))
			r.Floor(r.Counter("http_responses_with_preset_content_type") >= int64(cfg.N(2000, 15000)), "http_responses_with_preset_content_type=%d", r.Counter("http_responses_with_preset_content_type"))
			r.Floor(r.Counter("dump_args_with_spare_capacity") >= int64(cfg.N(1000, 8000)), "dump_args_with_spare_capacity=%d", r.Counter("dump_args_with_spare_capacity"))
			r.Floor(r.Counter("http_requests_with_preset_body") >= int64(cfg.N(2000, 15000)), "http_requests_with_preset_body=%d", r.Counter("http_requests_with_preset_body"))
			r.Floor(r.SeenCount("http_paths") >= 3, "http paths executed: %d", r.SeenCount("http_paths"))
			r.Assume("values are restricted to what every format can represent: valid UTF-8, finite floats, integers within +-2^53 (narrow widths: full range), no pointer to a nil slice/map")
			r.Assume("RAW contract: Load reports RAW and returns ErrIsRaw; the payload is the bytes after the identifier")
			r.Assume("an Accept header 'names a supported format' when one of its comma-separated ranges is application/{json,cbor,msgpack,yaml} (any case, parameters after ';' without whitespace before the ';'); wildcard = */* or type/*")
		},
	}
	classes["c09.value"] = func(c *ctx, in []byte) {
		if len(in) >= 8 {
			c09Value(c, binary.LittleEndian.Uint64(in))
		}
	}
	classes["c09.http"] = func(c *ctx, in []byte) {
		if len(in) >= 8 {
			c09HTTP(c, binary.LittleEndian.Uint64(in))
		}
	}
	classes["c09.bytes"] = func(c *ctx, in []byte) {
		c09LimitAS(c) // a replayed input runs under the same address-space limit as in the batch
		c09Bytes(c, in)
	}
	classes["c09.batch"] = c09Batch
	classes["c09.seq"] = func(c *ctx, in []byte) {
		if len(in) >= 8 {
			c09Seq(c, binary.LittleEndian.Uint64(in))
		}
	}
}

// ---------------------------------------------------------------------------------
// harness schema

type c09Inner struct {
	N   int32
	Str string
	Bs  []byte
	L   []string
	M   map[string]string
	P   *string
	Fl  float64
}

type c09Val struct {
	I   int
	I8  int8
	I16 int16
	I32 int32
	I64 int64
	U   uint
	U8  uint8
	U16 uint16
	U32 uint32
	U64 uint64
	F64 float64
	F32 float32
	Bo  bool
	S   string
	Sp  *string
	Sa  []string
	Sap *[]string
	Ba  []byte
	Bap *[]byte
	M   map[string]string
	Mp  *map[string]string
	Mi  map[string]int64
	Ip  *int64
	In  c09Inner
	Inp *c09Inner
	Ins []c09Inner
	Inm map[string]*c09Inner
}

// c09G is a hand-written GenCode-compatible type (bounds-checked decoder).
type c09G struct {
	A int64
	S string
	B []byte
	L []string
}

func (g *c09G) GenCodeMarshal(buf []byte) ([]byte, error) {
	out := buf[:0]
	out = binary.LittleEndian.AppendUint64(out, uint64(g.A))
	out = binary.AppendUvarint(out, uint64(len(g.S)))
	out = append(out, g.S...)
	out = binary.AppendUvarint(out, uint64(len(g.B)))
	out = append(out, g.B...)
	out = binary.AppendUvarint(out, uint64(len(g.L)))
	for _, s := range g.L {
		out = binary.AppendUvarint(out, uint64(len(s)))
		out = append(out, s...)
	}
	return out, nil
}

func (g *c09G) GenCodeUnmarshal(buf []byte) (uint64, error) {
	i := 0
	short := errors.New("c09G: short buffer")
	if len(buf) < 8 {
		return 0, short
	}
	g.A = int64(binary.LittleEndian.Uint64(buf))
	i = 8
	block := func() ([]byte, error) {
		l, n := binary.Uvarint(buf[i:])
		if n <= 0 {
			return nil, short
		}
		i += n
		if l > uint64(len(buf)-i) {
			return nil, short
		}
		b := buf[i : i+int(l)]
		i += int(l)
		return b, nil
	}
	b, err := block()
	if err != nil {
		return 0, err
	}
	g.S = string(b)
	if b, err = block(); err != nil {
		return 0, err
	}
	g.B = append([]byte{}, b...)
	cnt, n := binary.Uvarint(buf[i:])
	if n <= 0 || cnt > uint64(len(buf)) {
		return 0, short
	}
	i += n
	g.L = make([]string, 0, cnt)
	for k := uint64(0); k < cnt; k++ {
		if b, err = block(); err != nil {
			return 0, err
		}
		g.L = append(g.L, string(b))
	}
	return uint64(i), nil
}

// ---------------------------------------------------------------------------------
// generators

var c09SpecialStrings = []string{
	"", " ", "true", "false", "null", "~", "yes", "no", "on", "off", "y", "n", "1", "-1", "0x10", "1e3", "1.5", ".5", ".inf", ".nan", "0o17", "1_000",
	"2001-12-14", "2001-12-14t21:59:43.10-05:00", "<<", "=", "- a", "a: b", "a:b", " leading", "trailing ", "  two  ", "multi\nline", "multi\nline\n", "\nlead", "trail\n\n",
	"#comment", "a #b", "!tag", "&anchor", "*alias", "|", ">", "%", "@", "`", "[", "]", "{", "}", ",", "?", ": ", "- ", "'", "\"", "''", "\"\"", "\\", "\\n",
	"tab\there", "cr\rhere", "crlf\r\n", "\x00", "a\x00b", "\x01\x02\x1f", "\x7f", "\u0085", "\u00a0", "\u2028", "\u2029", "\ufeff", "\ufffd", "é", "日本語", "😀", "a😀b", "\U0010ffff",
	"<script>&amp;</script>", "ключ", "مرحبا", strings.Repeat("long ", 30), "key with spaces", "0", "00", "+1", "1:2", "1:20:30", "---", "...", "--- a", "null ", "Null", "NULL", "True", "~ ",
}

func c09Str(r *vlib.Rand) string {
	switch r.Intn(7) {
	case 0:
		return vlib.Pick(r, c09SpecialStrings...)
	case 1, 2:
		n := r.Intn(12)
		b := make([]byte, n)
		for i := range b {
			b[i] = byte(0x20 + r.Intn(0x5f))
		}
		return string(b)
	case 3: // unicode mix
		n := r.Intn(10)
		var sb strings.Builder
		for i := 0; i < n; i++ {
			switch r.Intn(6) {
			case 0:
				sb.WriteRune(rune(0x20 + r.Intn(0x5f)))
			case 1:
				sb.WriteRune(rune(0xa0 + r.Intn(0x500)))
			case 2:
				sb.WriteRune(rune(0x3040 + r.Intn(0x1000)))
			case 3:
				sb.WriteRune(rune(0x1f300 + r.Intn(0x300)))
			case 4:
				sb.WriteRune(vlib.Pick(r, '\n', '\t', '\r', ' ', '"', '\'', '\\', ':', '#', '-', '{', '[', ',', '&', '*', '!', '|', '>', '%', '@', '`'))
			default:
				ru := rune(r.Intn(0x11000))
				if !utf8.ValidRune(ru) || (ru >= 0xd800 && ru <= 0xdfff) {
					ru = 'x'
				}
				sb.WriteRune(ru)
			}
		}
		return sb.String()
	case 4: // control characters
		n := r.Range(1, 6)
		b := make([]byte, n)
		for i := range b {
			b[i] = byte(r.Intn(0x7f))
		}
		return string(b)
	case 5:
		return vlib.Pick(r, c09SpecialStrings...) + vlib.Pick(r, c09SpecialStrings...)
	default:
		if r.Chance(1, 40) {
			return strings.Repeat(vlib.Pick(r, "ab", "é", "x y ", "\n"), r.Range(100, 3000))
		}
		return fmt.Sprintf("k%d", r.Intn(100))
	}
}

func c09Int53(r *vlib.Rand) int64 {
	switch r.Intn(5) {
	case 0:
		return vlib.Pick(r, int64(0), 1, -1, 1<<53, -(1 << 53), 1<<53-1, 1<<31, 1<<31-1, -(1 << 31), 1<<32, 255, 256, 127, 128, -128, -129, 65535, 65536)
	case 1:
		return int64(r.Intn(2000)) - 1000
	default:
		v := int64(r.Uint64() >> uint(11+r.Intn(53))) // < 2^53
		if r.Bool() {
			return -v
		}
		return v
	}
}

func c09Float(r *vlib.Rand) float64 {
	switch r.Intn(6) {
	case 0:
		return vlib.Pick(r, 0.0, math.Copysign(0, -1), 1, -1, 0.1, 1.0/3, math.MaxFloat64, -math.MaxFloat64, math.SmallestNonzeroFloat64, 1e21, 1e-7, 123456789012345678, 1<<53, 1<<63, 1e300, 5e-324, 2.2250738585072014e-308)
	case 1:
		return float64(r.Intn(2000)-1000) / 8
	case 2:
		return float64(c09Int53(r))
	default:
		for {
			f := math.Float64frombits(r.Uint64())
			if !math.IsNaN(f) && !math.IsInf(f, 0) {
				return f
			}
		}
	}
}

func c09Float32(r *vlib.Rand) float32 {
	switch r.Intn(4) {
	case 0:
		return vlib.Pick(r, float32(0), 1, -1, 0.1, math.MaxFloat32, math.SmallestNonzeroFloat32, 16777216, 1e-10)
	case 1:
		return float32(r.Intn(2000)-1000) / 8
	default:
		for {
			f := math.Float32frombits(uint32(r.Uint64()))
			if f == f && !math.IsInf(float64(f), 0) {
				return f
			}
		}
	}
}

func c09Bytes0(r *vlib.Rand) []byte {
	switch r.Intn(6) {
	case 0:
		return nil
	case 1:
		return []byte{}
	case 2:
		if r.Chance(1, 30) {
			return r.Bytes(r.Range(4096, 70000))
		}
		return r.Bytes(r.Range(1, 300))
	default:
		return r.Bytes(r.Range(1, 24))
	}
}

func c09Strs(r *vlib.Rand) []string {
	switch r.Intn(5) {
	case 0:
		return nil
	case 1:
		return []string{}
	default:
		n := r.Range(1, 5)
		out := make([]string, n)
		for i := range out {
			out[i] = c09Str(r)
		}
		return out
	}
}

func c09Map(r *vlib.Rand) map[string]string {
	switch r.Intn(5) {
	case 0:
		return nil
	case 1:
		return map[string]string{}
	default:
		n := r.Range(1, 4)
		m := make(map[string]string, n)
		for i := 0; i < n; i++ {
			m[c09Str(r)] = c09Str(r)
		}
		return m
	}
}

func c09GenInner(r *vlib.Rand) c09Inner {
	in := c09Inner{N: int32(r.Int64Boundary()), Str: c09Str(r), Bs: c09Bytes0(r), L: c09Strs(r), M: c09Map(r), Fl: c09Float(r)}
	if r.Bool() {
		s := c09Str(r)
		in.P = &s
	}
	return in
}

func c09GenVal(r *vlib.Rand) *c09Val {
	if r.Chance(1, 25) {
		return &c09Val{} // all zero / nil
	}
	v := &c09Val{
		I: int(c09Int53(r)), I8: int8(r.Int64Boundary()), I16: int16(r.Int64Boundary()), I32: int32(r.Int64Boundary()), I64: c09Int53(r),
		U8: uint8(r.Uint64()), U16: uint16(r.Uint64Boundary()), U32: uint32(r.Uint64Boundary()),
		F64: c09Float(r), F32: c09Float32(r), Bo: r.Bool(), S: c09Str(r), Sa: c09Strs(r), Ba: c09Bytes0(r), M: c09Map(r),
	}
	if x := c09Int53(r); x >= 0 {
		v.U = uint(x)
	}
	if x := c09Int53(r); x >= 0 {
		v.U64 = uint64(x)
	}
	if r.Bool() {
		s := c09Str(r)
		v.Sp = &s
	}
	if r.Bool() {
		if l := c09Strs(r); l != nil { // never a pointer to a nil slice (collapses to a nil pointer in every text format)
			v.Sap = &l
		}
	}
	if r.Bool() {
		if b := c09Bytes0(r); b != nil {
			v.Bap = &b
		}
	}
	if r.Bool() {
		if m := c09Map(r); m != nil {
			v.Mp = &m
		}
	}
	if r.Bool() {
		v.Mi = map[string]int64{}
		for i, n := 0, r.Intn(4); i < n; i++ {
			v.Mi[c09Str(r)] = c09Int53(r)
		}
	}
	if r.Bool() {
		x := c09Int53(r)
		v.Ip = &x
	}
	v.In = c09GenInner(r)
	if r.Bool() {
		in := c09GenInner(r)
		v.Inp = &in
	}
	switch r.Intn(4) {
	case 0:
	case 1:
		v.Ins = []c09Inner{}
	default:
		for i, n := 0, r.Range(1, 3); i < n; i++ {
			v.Ins = append(v.Ins, c09GenInner(r))
		}
	}
	if r.Bool() {
		v.Inm = map[string]*c09Inner{}
		for i, n := 0, r.Intn(3); i < n; i++ {
			in := c09GenInner(r)
			v.Inm[c09Str(r)] = &in
		}
	}
	return v
}

func c09GenMeta(r *vlib.Rand) *record.Meta {
	m := &record.Meta{Created: r.Int64Boundary(), Modified: r.Int64Boundary(), Expires: r.Int64Boundary(), Deleted: r.Int64Boundary()}
	if r.Bool() {
		m.MakeSecret()
	}
	if r.Bool() {
		m.MakeCrownJewel()
	}
	return m
}

func c09GenG(r *vlib.Rand) *c09G {
	return &c09G{A: r.Int64Boundary(), S: c09Str(r), B: c09Bytes0(r), L: c09Strs(r)}
}

func c09GenGInterop(r *vlib.Rand) *c09G {
	g := c09GenG(r)
	g.A = c09Int53(r)
	return g
}

// ---------------------------------------------------------------------------------
// equality: normalise nil == empty, then reflect.DeepEqual

func c09Normalise(v reflect.Value) {
	switch v.Kind() {
	case reflect.Ptr, reflect.Interface:
		if !v.IsNil() {
			c09Normalise(v.Elem())
		}
	case reflect.Struct:
		for i := 0; i < v.NumField(); i++ {
			if v.Field(i).CanSet() {
				c09Normalise(v.Field(i))
			}
		}
	case reflect.Slice:
		if v.IsNil() {
			if v.CanSet() {
				v.Set(reflect.MakeSlice(v.Type(), 0, 0))
			}
			return
		}
		if v.Type().Elem().Kind() == reflect.Uint8 {
			return
		}
		for i := 0; i < v.Len(); i++ {
			c09Normalise(v.Index(i))
		}
	case reflect.Map:
		if v.IsNil() {
			if v.CanSet() {
				v.Set(reflect.MakeMap(v.Type()))
			}
			return
		}
		for _, k := range v.MapKeys() {
			el := v.MapIndex(k)
			if el.Kind() == reflect.Ptr || el.Kind() == reflect.Interface {
				c09Normalise(el)
			} else if el.Kind() == reflect.Struct || el.Kind() == reflect.Slice || el.Kind() == reflect.Map {
				cp := reflect.New(el.Type()).Elem()
				cp.Set(el)
				c09Normalise(cp)
				v.SetMapIndex(k, cp)
			}
		}
	}
}

func c09Equal(want, got any) bool {
	c09Normalise(reflect.ValueOf(want))
	c09Normalise(reflect.ValueOf(got))
	return reflect.DeepEqual(want, got)
}

// c09Diff names the first differing path (diagnostics only).
func c09Diff(a, b reflect.Value, path string) string {
	if a.Kind() != b.Kind() {
		return path + ": kind differs"
	}
	switch a.Kind() {
	case reflect.Ptr:
		if a.IsNil() != b.IsNil() {
			return fmt.Sprintf("%s: nil=%v vs nil=%v", path, a.IsNil(), b.IsNil())
		}
		if a.IsNil() {
			return ""
		}
		return c09Diff(a.Elem(), b.Elem(), path)
	case reflect.Struct:
		for i := 0; i < a.NumField(); i++ {
			if d := c09Diff(a.Field(i), b.Field(i), path+"."+a.Type().Field(i).Name); d != "" {
				return d
			}
		}
	case reflect.Slice:
		if a.Len() != b.Len() {
			return fmt.Sprintf("%s: len %d vs %d", path, a.Len(), b.Len())
		}
		for i := 0; i < a.Len(); i++ {
			if d := c09Diff(a.Index(i), b.Index(i), fmt.Sprintf("%s[%d]", path, i)); d != "" {
				return d
			}
		}
	case reflect.Map:
		if a.Len() != b.Len() {
			return fmt.Sprintf("%s: map len %d vs %d", path, a.Len(), b.Len())
		}
		for _, k := range a.MapKeys() {
			bv := b.MapIndex(k)
			if !bv.IsValid() {
				return fmt.Sprintf("%s[%q]: key missing", path, fmt.Sprint(k))
			}
			if d := c09Diff(a.MapIndex(k), bv, fmt.Sprintf("%s[%q]", path, fmt.Sprint(k))); d != "" {
				return d
			}
		}
	case reflect.String:
		if a.String() != b.String() {
			return fmt.Sprintf("%s: %q vs %q", path, trunc([]byte(a.String()), 80), trunc([]byte(b.String()), 80))
		}
	case reflect.Float32, reflect.Float64:
		if a.Float() != b.Float() {
			return fmt.Sprintf("%s: %v vs %v", path, a.Float(), b.Float())
		}
	case reflect.Int, reflect.Int8, reflect.Int16, reflect.Int32, reflect.Int64:
		if a.Int() != b.Int() {
			return fmt.Sprintf("%s: %d vs %d", path, a.Int(), b.Int())
		}
	case reflect.Uint, reflect.Uint8, reflect.Uint16, reflect.Uint32, reflect.Uint64:
		if a.Uint() != b.Uint() {
			return fmt.Sprintf("%s: %d vs %d", path, a.Uint(), b.Uint())
		}
	case reflect.Bool:
		if a.Bool() != b.Bool() {
			return path + ": bool differs"
		}
	}
	return ""
}

// ---------------------------------------------------------------------------------
// strings the YAML dependency chain (ghodss/yaml -> yaml.v2) mishandles. They are
// representable in YAML (escapes in double-quoted scalars), so failures on them are
// findings — but findings of their own kind, kept apart from every other YAML failure.

var c09YAMLHardKind = map[string][]string{"c1-control": {"dump-error"}, "long-key": {"dump-error"}, "merge-key": {"load-error"}, "nel": {"value-differs", "dump-error"}}

func c09YAMLHardIs(feat, kind string) bool {
	for _, k := range c09YAMLHardKind[feat] {
		if k == kind {
			return true
		}
	}
	return false
}

var c09YAMLHardText = map[string]string{
	"c1-control": "the value contains U+007F..U+009F or U+FFFE/U+FFFF, which ghodss/yaml passes unescaped from JSON text into the YAML reader",
	"long-key":   "the value has a map key whose JSON text exceeds 1000 characters; ghodss/yaml parses the JSON text as a YAML flow mapping, where implicit keys are limited to 1024 characters",
	"merge-key":  "the value has a map key \"<<\", which yaml.v2 emits unquoted and reads back as a merge key",
	"nel":        "the value contains U+0085 (NEL), which the YAML reader treats as a line break inside the JSON text ghodss/yaml hands it (folded to a space in values, refused in keys and before ---)",
}

func c09YAMLHard(v any) []string {
	c1, merge, nel, long := false, false, false, false
	var walk func(x reflect.Value)
	str := func(s string, isKey bool) {
		for _, r := range s {
			switch {
			case r == 0x85:
				nel = true
			case (r >= 0x7f && r <= 0x9f) || r == 0xfffe || r == 0xffff:
				c1 = true
			}
		}
		if isKey && s == "<<" {
			merge = true
		}
		if isKey && len(s) >= 300 {
			if j, err := json.Marshal(s); err == nil && utf8.RuneCount(j) >= 1000 {
				long = true
			}
		}
	}
	walk = func(x reflect.Value) {
		switch x.Kind() {
		case reflect.Ptr, reflect.Interface:
			if !x.IsNil() {
				walk(x.Elem())
			}
		case reflect.Struct:
			for i := 0; i < x.NumField(); i++ {
				walk(x.Field(i))
			}
		case reflect.Slice:
			if x.Type().Elem().Kind() != reflect.Uint8 {
				for i := 0; i < x.Len(); i++ {
					walk(x.Index(i))
				}
			}
		case reflect.Map:
			for _, k := range x.MapKeys() {
				if k.Kind() == reflect.String {
					str(k.String(), true)
				}
				walk(x.MapIndex(k))
			}
		case reflect.String:
			str(x.String(), false)
		}
	}
	walk(reflect.ValueOf(v))
	var feats []string
	if c1 {
		feats = append(feats, "c1-control")
	}
	if long {
		feats = append(feats, "long-key")
	}
	if merge {
		feats = append(feats, "merge-key")
	}
	if nel {
		feats = append(feats, "nel")
	}
	return feats
}

// c09YAMLFinding returns the dependency feature of v that explains a failure of one of
// the given kinds ("" if none does).
func c09YAMLFinding(v any, kinds ...string) (feat, kind string) {
	for _, f := range c09YAMLHard(v) {
		for _, k := range kinds {
			if c09YAMLHardIs(f, k) {
				return f, k
			}
		}
	}
	return "", ""
}

// ---------------------------------------------------------------------------------
// c09.value

var c09FmtName = map[uint8]string{dsd.AUTO: "AUTO", dsd.RAW: "RAW", dsd.CBOR: "CBOR", dsd.GenCode: "GenCode", dsd.JSON: "JSON", dsd.MsgPack: "MsgPack", dsd.YAML: "YAML", dsd.GZIP: "GZIP", dsd.LIST: "LIST"}

func c09Name(f uint8) string {
	if n, ok := c09FmtName[f]; ok {
		return n
	}
	return fmt.Sprintf("fmt%d", f)
}

const (
	c09NoComp   = 255 // plain Dump
	c09Indented = 254 // DumpIndent
)

func c09CompName(comp uint8) string {
	switch comp {
	case c09NoComp:
		return "none"
	case c09Indented:
		return "none-indent"
	case dsd.AUTO:
		return "AUTO"
	default:
		return c09Name(comp)
	}
}

// c09Subject describes one generated value: how to regenerate it (gen is deterministic
// for a fresh stream), how to make an empty target, and the formats it is representable in.
type c09Subject struct {
	kind    string
	gen     func(r *vlib.Rand) any
	fresh   func() any
	formats []uint8
	allComp bool // every compression variant in every case
}

var c09Subjects = []c09Subject{
	{"struct", func(r *vlib.Rand) any { return c09GenVal(r) }, func() any { return &c09Val{} }, []uint8{dsd.JSON, dsd.CBOR, dsd.MsgPack, dsd.YAML, dsd.AUTO}, false},
	{"meta", func(r *vlib.Rand) any { return c09GenMeta(r) }, func() any { return &record.Meta{} }, []uint8{dsd.GenCode}, false},
	{"gencode", func(r *vlib.Rand) any { return c09GenG(r) }, func() any { return &c09G{} }, []uint8{dsd.GenCode}, false},
	{"gencode-interop", func(r *vlib.Rand) any { return c09GenGInterop(r) }, func() any { return &c09G{} }, []uint8{dsd.GenCode, dsd.JSON, dsd.CBOR, dsd.MsgPack, dsd.YAML, dsd.AUTO}, false},
	{"raw", func(r *vlib.Rand) any {
		switch r.Intn(8) {
		case 0:
			return []byte{}
		case 1:
			return []byte{byte(vlib.Pick(r, dsd.JSON, dsd.GZIP, dsd.RAW, 0, 0x80, 0xff))}
		case 2:
			return r.Bytes(r.Range(2000, 40000))
		default:
			return r.Bytes(r.Range(1, 64))
		}
	}, func() any { return &c09Val{} }, []uint8{dsd.RAW}, false},
}

func c09PickSubject(r *vlib.Rand) *c09Subject {
	switch x := r.Intn(80); {
	case x < 48:
		return &c09Subjects[0]
	case x < 56:
		return &c09Subjects[1]
	case x < 60:
		return &c09Subjects[2]
	case x < 68:
		return &c09Subjects[3]
	case x < 79:
		return &c09Subjects[4]
	default:
		return &c09Compressible[r.Intn(len(c09Compressible))]
	}
}

// Highly compressible values (16 KiB .. 1 MiB serialized, far beyond 100:1 under gzip):
// every format of these is dumped with GZIP and with AUTO compression in every case.
func c09CompressibleSize(r *vlib.Rand) int {
	e := r.Intn(7)
	if e >= 5 && r.Bool() { // 512 KiB and 1 MiB half as often: they dominate the run time
		e = r.Intn(5)
	}
	return (16 << 10) << uint(e)
}

func c09GenCompressible(r *vlib.Rand) *c09Val {
	v := &c09Val{I: 1, S: "compressible", Bo: true}
	total := c09CompressibleSize(r)
	switch r.Intn(4) {
	case 0: // a long run of one character
		v.S = strings.Repeat(vlib.Pick(r, "a", " ", "0", "é"), total)
	case 1: // zero-filled (or one-valued) byte slice
		v.Ba = bytes.Repeat([]byte{vlib.Pick(r, byte(0), 0, 0xff, 'x')}, max(total, 128<<10))
	case 2: // thousands of identical strings
		e := vlib.Pick(r, "identical-string", "", "x")
		v.Sa = make([]string, min(total/16, 50000))
		for i := range v.Sa {
			v.Sa[i] = e
		}
	default: // thousands of identical struct entries
		in := c09Inner{N: 1, Str: "same", L: []string{"a", "b"}}
		v.Ins = make([]c09Inner, min(total/64, 16000))
		for i := range v.Ins {
			v.Ins[i] = in
		}
	}
	return v
}

var c09Compressible = []c09Subject{
	{"compressible-struct", func(r *vlib.Rand) any { return c09GenCompressible(r) }, func() any { return &c09Val{} }, []uint8{dsd.JSON, dsd.CBOR, dsd.MsgPack, dsd.YAML, dsd.AUTO}, true},
	{"compressible-gencode", func(r *vlib.Rand) any {
		return &c09G{A: 1, S: strings.Repeat("g", c09CompressibleSize(r)/4), B: make([]byte, c09CompressibleSize(r))}
	}, func() any { return &c09G{} }, []uint8{dsd.GenCode, dsd.JSON, dsd.CBOR, dsd.MsgPack}, true},
	{"compressible-raw", func(r *vlib.Rand) any {
		return bytes.Repeat([]byte{vlib.Pick(r, byte(0), 'z')}, c09CompressibleSize(r))
	}, func() any { return &c09Val{} }, []uint8{dsd.RAW}, true},
}

func c09Resolved(f uint8) uint8 {
	if f == dsd.AUTO {
		return dsd.DefaultSerializationFormat
	}
	return f
}

func c09Gunzip(b []byte) ([]byte, error) {
	zr, err := gzip.NewReader(bytes.NewReader(b))
	if err != nil {
		return nil, err
	}
	return io.ReadAll(io.LimitReader(zr, 1<<26))
}

func c09Value(c *ctx, seed uint64) {
	b := c.b
	in := u64le(seed)
	b.Eval(1)
	r0 := vlib.NewRand(seed, "c09.value", 0)
	sub := c09PickSubject(r0)
	vseed := r0.Uint64()
	compared := false
	for _, f := range sub.formats {
		for _, comp := range []uint8{c09NoComp, dsd.GZIP, dsd.AUTO, c09Indented} {
			if comp == c09Indented && f != dsd.JSON && f != dsd.AUTO {
				continue
			}
			// every format uncompressed for every value; the (slow: one BestCompression gzip
			// writer per call) compressed variants and the indented variant for a third each
			if sub.allComp && (comp == dsd.GZIP || comp == dsd.AUTO) {
				b.Count("compressible_roundtrips_attempted", 1)
			} else if comp != c09NoComp && !r0.Chance(1, 3) {
				continue
			}
			f, comp := f, comp
			combo := c09Name(f) + "/" + c09CompName(comp)
			bad := func(kind, what string, extra map[string]any) {
				d := map[string]any{"class": "c09.value", "input_hex": hex.EncodeToString(in), "subject": sub.kind, "format": c09Name(f), "compression": c09CompName(comp), "build": c.spec.Kind}
				for k, v := range extra {
					d[k] = v
				}
				if f == dsd.YAML {
					if feat, _ := c09YAMLFinding(sub.gen(vlib.NewRand(vseed, "c09.v", 0)), kind); feat != "" {
						d["yaml_feature"] = feat
						b.Count("yaml_dependency_findings", 1)
						b.Violation("C09:yaml-dependency:"+feat+":"+kind, what+" ["+c09YAMLHardText[feat]+"]", d)
						return
					}
				}
				b.Violation("C09:"+kind+":"+c09Name(f)+":"+c09CompName(comp), what, d)
			}
			c.call("c09.value", in, func() {
				v := sub.gen(vlib.NewRand(vseed, "c09.v", 0))
				want := sub.gen(vlib.NewRand(vseed, "c09.v", 0))
				// "Dump does not modify its argument": the value as the caller holds it is compared
				// after the dump; a []byte is handed over the way callers often hold one - with
				// spare capacity (a window into a larger, canary-filled buffer)
				var whole, wholeBefore []byte
				if raw, ok := v.([]byte); ok {
					var view []byte
					view, whole, _ = embed(raw)
					wholeBefore = append([]byte{}, whole...)
					v = view
				}
				var blob []byte
				var err error
				switch comp {
				case c09NoComp:
					blob, err = dsd.Dump(v, f)
				case c09Indented:
					blob, err = dsd.DumpIndent(v, f, vlib.Pick(r0, " ", "  ", "\t"))
				default:
					blob, err = dsd.DumpAndCompress(v, f, comp)
				}
				if whole != nil {
					b.Count("dump_args_with_spare_capacity", 1)
					if !bytes.Equal(whole, wholeBefore) {
						first := 0
						for first < len(whole) && whole[first] == wholeBefore[first] {
							first++
						}
						bad("dump-modified-argument", fmt.Sprintf("dumping a %d-byte []byte with spare capacity as %s changed the caller's buffer: byte %d of the value/its surroundings (value occupies [64,%d)) was %#x, is %#x", len(v.([]byte)), combo, first, 64+len(v.([]byte)), wholeBefore[first], whole[first]), nil)
					}
				} else if !reflect.DeepEqual(v, sub.gen(vlib.NewRand(vseed, "c09.v", 0))) {
					bad("dump-modified-argument", fmt.Sprintf("dumping a %s value as %s changed the value the caller holds", sub.kind, combo), nil)
				}
				if err != nil {
					bad("dump-error", fmt.Sprintf("dumping a representable %s value as %s failed: %v", sub.kind, combo, err), nil)
					return
				}
				b.Count("roundtrips", 1)
				b.Seen("format_x_compression", c09Name(f)+"/"+strings.TrimSuffix(c09CompName(comp), "-indent"))
				if comp == c09Indented {
					b.Count("indented", 1)
				}
				got := sub.fresh()
				lf, lerr := dsd.Load(exact(blob), got)
				compared = true
				head := hex.EncodeToString(trunc(blob, 48))
				if f == dsd.RAW {
					if !errors.Is(lerr, dsd.ErrIsRaw) || lf != dsd.RAW {
						bad("raw-contract", fmt.Sprintf("Load of a RAW dump (%s, %d payload bytes) returned (format %d, err %v); contract is (RAW, ErrIsRaw)", combo, len(v.([]byte)), lf, lerr),
							map[string]any{"blob_head": head, "payload_len": len(v.([]byte))})
						return
					}
					payload := blob[1:]
					if comp != c09NoComp {
						un, err := c09Gunzip(blob[1:])
						if err != nil || len(un) < 1 || un[0] != dsd.RAW {
							bad("raw-bytes", fmt.Sprintf("compressed RAW dump does not gunzip to RAW-identified bytes: %v", err), map[string]any{"blob_head": head})
							return
						}
						payload = un[1:]
					}
					if !bytes.Equal(payload, want.([]byte)) {
						bad("raw-bytes", "bytes after the RAW identifier differ from the dumped bytes", map[string]any{"blob_head": head})
					}
					return
				}
				if lerr != nil {
					bad("load-error", fmt.Sprintf("Load(Dump(v, %s)) failed: %v (identifier byte of the dump = %d)", combo, lerr, blob[0]), map[string]any{"blob_head": head, "load_err": lerr.Error()})
					return
				}
				if lf != c09Resolved(f) {
					bad("wrong-format", fmt.Sprintf("Load(Dump(v, %s)) reports format %d (%s), dumped as %s", combo, lf, c09Name(lf), c09Name(c09Resolved(f))), map[string]any{"blob_head": head})
				}
				if !c09Equal(want, got) {
					bad("value-differs", fmt.Sprintf("Load(Dump(v, %s)) differs from v at %s", combo, c09Diff(reflect.ValueOf(want), reflect.ValueOf(got), "v")),
						map[string]any{"blob_head": head, "blob_len": len(blob)})
				}
			})
		}
	}
	if compared {
		b.Distinct([]byte("c09.value"), in)
		b.Seen("subjects", sub.kind)
	}
}

// ---------------------------------------------------------------------------------
// c09.http

type c09Accept struct {
	header    string
	supported bool // names application/{json,cbor,msgpack,yaml}
	wildcard  bool
	alias     bool
}

var c09Mime = map[string]uint8{"application/json": dsd.JSON, "application/cbor": dsd.CBOR, "application/msgpack": dsd.MsgPack, "application/yaml": dsd.YAML}

func c09RandCase(r *vlib.Rand, s string) string {
	switch r.Intn(4) {
	case 0:
		return strings.ToUpper(s)
	case 1:
		b := []byte(s)
		for i := range b {
			if r.Bool() && b[i] >= 'a' && b[i] <= 'z' {
				b[i] -= 32
			}
		}
		return string(b)
	default:
		return s
	}
}

func c09GenAccept(r *vlib.Rand) c09Accept {
	var a c09Accept
	n := r.Range(1, 4)
	var parts []string
	for i := 0; i < n; i++ {
		var rng string
		switch x := r.Intn(10); {
		case x < 4:
			rng = c09RandCase(r, vlib.Pick(r, "application/json", "application/cbor", "application/msgpack", "application/yaml"))
			a.supported = true
		case x < 5:
			rng = vlib.Pick(r, "*/*", "application/*", "text/*")
			a.wildcard = true
		case x < 6:
			rng = c09RandCase(r, vlib.Pick(r, "text/yaml", "application/yml", "text/json", "application/x-yaml"))
			a.alias = true
		default:
			rng = vlib.Pick(r, "text/html", "image/webp", "application/xml", "application/xhtml+xml", "text/plain", "application/vnd.api+json", "application/octet-stream", "application/jsonp", "application/json5", "x")
		}
		for j, np := 0, r.Intn(3); j < np; j++ {
			rng += ";" + vlib.Pick(r, "", " ", "\t") + vlib.Pick(r, "q=0.9", "q=0", "q=1.000", "q=0.001", "charset=utf-8", "charset=\"utf-8\"", "version=1", "Q=0.5", "foo=\"a,b\"", "profile=\"x;y\"")
		}
		parts = append(parts, rng)
	}
	for i, p := range parts {
		if i > 0 {
			a.header += vlib.Pick(r, ",", ", ", " , ", ",  ", ",\t")
		}
		a.header += p
	}
	return a
}

var (
	c09SrvOnce sync.Once
	c09Srv     *httptest.Server
)

// c09Server is the loopback echo server: it loads the request body with the real
// LoadFromHTTPRequest and answers with the real DumpToHTTPResponse.
func c09Server() *httptest.Server {
	c09SrvOnce.Do(func() {
		c09Srv = httptest.NewServer(http.HandlerFunc(func(w http.ResponseWriter, r *http.Request) {
			defer func() {
				if x := recover(); x != nil {
					w.Header().Set("X-C09-Panic", fmt.Sprint(x))
					w.WriteHeader(599)
				}
			}()
			v := &c09Val{}
			f, err := dsd.LoadFromHTTPRequest(r, v)
			w.Header().Set("X-C09-Loaded-Format", fmt.Sprint(f))
			if err != nil {
				w.Header().Set("X-C09-Load-Error", err.Error())
				w.WriteHeader(http.StatusBadRequest)
				return
			}
			if p := r.Header.Get("X-C09-Preset-Content-Type"); p != "" {
				w.Header()["Content-Type"] = strings.Split(p, "|") // what a middleware put there earlier
			}
			if err := dsd.DumpToHTTPResponse(w, r, v); err != nil {
				w.Header().Set("X-C09-Dump-Error", err.Error())
				w.WriteHeader(http.StatusNotAcceptable)
			}
		}))
	})
	return c09Srv
}

// c09CTFormat maps a Content-Type value to a format with the harness's own table
// (standard media-type parsing), independent of dsd.FormatFromAccept.
func c09CTFormat(ct string) (uint8, bool) {
	mt, _, err := mime.ParseMediaType(ct)
	if err != nil {
		return 0, false
	}
	f, ok := c09Mime[mt]
	return f, ok
}

func c09HTTP(c *ctx, seed uint64) {
	b := c.b
	in := u64le(seed)
	b.Eval(1)
	r := vlib.NewRand(seed, "c09.http", 0)
	vseed := r.Uint64()
	gen := func() *c09Val { return c09GenVal(vlib.NewRand(vseed, "c09.hv", 0)) }
	want := gen()
	f := vlib.Pick(r, uint8(dsd.JSON), dsd.CBOR, dsd.MsgPack, dsd.YAML)
	acc := c09GenAccept(r)
	overWire := r.Chance(1, 4)
	compared := false
	// Content-Type value(s) already on the response before the dump (a middleware default)
	var pre []string
	if r.Bool() {
		one := func() string {
			return vlib.Pick(r, "application/json", "application/cbor", "application/msgpack", "application/yaml", "text/html", "text/plain; charset=utf-8", "application/octet-stream", "application/json; charset=utf-8")
		}
		pre = []string{one()}
		for r.Chance(1, 4) {
			pre = append(pre, one())
		}
	}
	respWhere := func(w string) string {
		if pre != nil {
			return w + "-preset-content-type"
		}
		return w
	}
	// the format in play (classification of dependency findings only, never an oracle)
	yamlInvolved := func(where string) bool {
		if strings.HasPrefix(where, "request") {
			return f == dsd.YAML
		}
		return dsd.FormatFromAccept(acc.header) == dsd.YAML || (overWire && f == dsd.YAML)
	}
	bad := func(kind, where, what string, extra map[string]any) {
		d := map[string]any{"class": "c09.http", "input_hex": hex.EncodeToString(in), "format": c09Name(f), "accept": acc.header, "build": c.spec.Kind}
		for k, v := range extra {
			d[k] = v
		}
		if yamlInvolved(where) {
			ks := []string{strings.TrimPrefix(kind, "http-")}
			if ks[0] == "content-type-mismatch" {
				ks = []string{"value-differs", "load-error"}
			}
			if feat, k2 := c09YAMLFinding(want, ks...); feat != "" {
				d["yaml_feature"] = feat
				b.Count("yaml_dependency_findings", 1)
				b.Violation("C09:yaml-dependency:"+feat+":"+k2, what+" ["+c09YAMLHardText[feat]+"]", d)
				return
			}
		}
		b.Violation("C09:"+kind+":"+where, what, d)
	}
	// checkCT: the content type must name a format with which the body decodes to the value
	checkCT := func(where, ct string, body []byte) {
		cf, ok := c09CTFormat(ct)
		if !ok {
			bad("http-content-type", where, fmt.Sprintf("%s: Content-Type %q does not name a dsd format; body is %d bytes starting %x", where, ct, len(body), trunc(body, 16)), map[string]any{"content_type": ct})
			return
		}
		got := &c09Val{}
		if err := dsd.LoadAsFormat(exact(body), cf, got); err != nil || !c09Equal(want, got) {
			bad("http-content-type-mismatch", where, fmt.Sprintf("%s: Content-Type %q names %s but the body does not decode to the value with it (err %v)", where, ct, c09Name(cf), err), map[string]any{"content_type": ct})
		}
	}

	// (1) request direction, in memory
	// an Accept header that is already on the request before the dump (every supported type,
	// wildcards, lists, q-values - from the Accept grammar)
	var preAccept string
	if r.Bool() {
		if r.Bool() {
			preAccept = vlib.Pick(r, "application/json", "application/cbor", "application/msgpack", "application/yaml", "*/*", "application/*", "text/html", "application/cbor;q=0.9, */*", "text/html, application/msgpack")
		} else {
			preAccept = c09GenAccept(r).header
		}
	}
	// a body of known length that is already on the request before the dump (placeholder,
	// re-used request, retry): http(test).NewRequest sets ContentLength from it
	preBody := -1
	if r.Bool() {
		preBody = vlib.Pick(r, 1, 7, 64, 300, 700, 2000, 5000, 200000)
	}
	newReq := func(method string) *http.Request {
		var body io.Reader
		if preBody >= 0 {
			body = bytes.NewReader(bytes.Repeat([]byte{'p'}, preBody))
		}
		req := httptest.NewRequest(method, "http://c09.test/x", body)
		if preAccept != "" {
			req.Header.Set("Accept", preAccept)
		}
		return req
	}
	c.call("c09.http", in, func() {
		req := newReq(http.MethodPost)
		if preAccept != "" {
			b.Count("http_requests_with_preset_accept", 1)
		}
		if preBody >= 0 {
			b.Count("http_requests_with_preset_body", 1)
		}
		if err := dsd.DumpToHTTPRequest(req, gen(), f); err != nil {
			bad("http-dump-error", "request", fmt.Sprintf("DumpToHTTPRequest(%s) failed: %v", c09Name(f), err), nil)
			return
		}
		b.Seen("http_paths", "request/recorder")
		body, _ := io.ReadAll(req.Body)
		req.Body = io.NopCloser(bytes.NewReader(body))
		ct := req.Header.Get("Content-Type")
		got := &c09Val{}
		lf, err := dsd.LoadFromHTTPRequest(req, got)
		compared = true
		b.Count("http_roundtrips", 1)
		switch {
		case err != nil:
			bad("http-load-error", "request", fmt.Sprintf("LoadFromHTTPRequest(DumpToHTTPRequest(v, %s)) failed: %v (Content-Type %q; the request was created with a %d-byte body, ContentLength now %d, dumped body %d bytes)", c09Name(f), err, ct, preBody, req.ContentLength, len(body)), map[string]any{"preset_body_len": preBody})
		case lf != f:
			bad("http-wrong-format", "request", fmt.Sprintf("LoadFromHTTPRequest reports %s, dumped as %s", c09Name(lf), c09Name(f)), nil)
		case !c09Equal(want, got):
			bad("http-value-differs", "request", "value differs after DumpToHTTPRequest/LoadFromHTTPRequest at "+c09Diff(reflect.ValueOf(want), reflect.ValueOf(got), "v"), nil)
		}
		checkCT("request", ct, body)
		if a := req.Header.Get("Accept"); a != ct {
			b.Note("DumpToHTTPRequest: Accept %q differs from Content-Type %q", a, ct)
		}
	})

	// unsupported formats on the HTTP path must not produce a request that loads to something else
	c.call("c09.http", in, func() {
		for _, uf := range []uint8{dsd.AUTO, dsd.RAW, dsd.GenCode} {
			req := newReq(http.MethodPost)
			if err := dsd.DumpToHTTPRequest(req, gen(), uf); err == nil {
				b.Count("http_unsupported_format_accepted", 1)
				body, _ := io.ReadAll(req.Body)
				req.Body = io.NopCloser(bytes.NewReader(body))
				ct := req.Header.Get("Content-Type")
				got := &c09Val{}
				if _, err := dsd.LoadFromHTTPRequest(req, got); err != nil || !c09Equal(want, got) {
					bad("http-load-error", "request-"+c09Name(uf), fmt.Sprintf("DumpToHTTPRequest(%s) on a request with Accept %q succeeded with Content-Type %q, but the request does not load back (err %v; body starts %x)", c09Name(uf), preAccept, ct, err, trunc(body, 12)), map[string]any{"preset_accept": preAccept, "content_type": ct})
				}
				checkCT("request-"+c09Name(uf), ct, body)
			} else {
				b.Count("http_unsupported_format_refused", 1)
			}
		}
	})

	// (2) response direction, in memory
	mustSucceed := acc.supported || acc.wildcard
	c.call("c09.http", in, func() {
		req := httptest.NewRequest(http.MethodGet, "http://c09.test/x", nil)
		req.Header.Set("Accept", acc.header)
		rec := httptest.NewRecorder()
		if pre != nil {
			rec.Header()["Content-Type"] = append([]string{}, pre...)
			b.Count("http_responses_with_preset_content_type", 1)
		}
		preCL := -1
		if r.Chance(1, 3) { // a Content-Length a middleware set for an earlier, replaced body
			preCL = vlib.Pick(r, 1, 7, 64, 300, 2000, 200000)
			rec.Header().Set("Content-Length", fmt.Sprint(preCL))
			b.Count("http_responses_with_preset_content_length", 1)
		}
		err := dsd.DumpToHTTPResponse(rec, req, gen())
		if err != nil {
			if mustSucceed {
				bad("http-dump-error", "response", fmt.Sprintf("DumpToHTTPResponse failed for Accept %q, which names a supported format or a wildcard: %v", acc.header, err), nil)
			} else {
				b.Count("http_accept_refused", 1)
			}
			return
		}
		b.Seen("http_paths", "response/recorder")
		if acc.supported {
			b.Count("http_accept_supported", 1)
		} else if acc.wildcard {
			b.Count("http_accept_wildcard", 1)
		} else {
			b.Count("http_accept_other_accepted", 1)
		}
		resp := rec.Result()
		body := rec.Body.Bytes()
		ct := resp.Header.Get("Content-Type")
		got := &c09Val{}
		lf, lerr := dsd.LoadFromHTTPResponse(resp, got)
		compared = true
		b.Count("http_roundtrips", 1)
		b.Seen("http_response_formats", c09Name(lf))
		cts := resp.Header.Values("Content-Type")
		switch {
		case lerr != nil:
			bad("http-load-error", respWhere("response"), fmt.Sprintf("LoadFromHTTPResponse(DumpToHTTPResponse(v)) failed for Accept %q: Content-Type on the response before the dump %q, sent = %q, Content-Length header before the dump %d (body %d bytes), body starts %x: %v", acc.header, pre, cts, preCL, len(body), trunc(body, 12), lerr), map[string]any{"content_type": cts, "preset": pre, "preset_content_length": preCL})
		case !c09Equal(want, got):
			bad("http-value-differs", respWhere("response"), fmt.Sprintf("value differs after DumpToHTTPResponse/LoadFromHTTPResponse (Accept %q, Content-Type %q) at %s", acc.header, cts, c09Diff(reflect.ValueOf(want), reflect.ValueOf(got), "v")), map[string]any{"content_type": cts, "preset": pre})
		}
		checkCT(respWhere("response"), ct, body)
		for _, v := range cts[min(1, len(cts)):] { // every value the client sees must name the encoding used
			checkCT(respWhere("response")+"-further-value", v, body)
		}
	})

	// (3) both directions over a real loopback connection
	if overWire {
		c.call("c09.http", in, func() {
			srv := c09Server()
			req, err := http.NewRequest(http.MethodPost, srv.URL+"/echo", nil)
			if err != nil {
				return
			}
			if err := dsd.DumpToHTTPRequest(req, gen(), f); err != nil {
				return // reported in (1)
			}
			useAccept := acc.header
			if !mustSucceed || r.Bool() {
				useAccept = req.Header.Get("Accept") // what DumpToHTTPRequest asked for
			} else {
				req.Header.Set("Accept", useAccept)
			}
			if pre != nil {
				req.Header.Set("X-C09-Preset-Content-Type", strings.Join(pre, "|"))
			}
			resp, err := srv.Client().Do(req)
			if err != nil {
				b.Inconclusive("loopback request failed: %v", err)
				return
			}
			defer resp.Body.Close()
			b.Seen("http_paths", "request+response/loopback")
			if p := resp.Header.Get("X-C09-Panic"); p != "" {
				bad("panic", "loopback-handler", "handler panicked inside dsd: "+p, nil)
				return
			}
			if resp.StatusCode == http.StatusBadRequest {
				bad("http-load-error", "request-loopback", fmt.Sprintf("server side LoadFromHTTPRequest failed: %s", resp.Header.Get("X-C09-Load-Error")), nil)
				return
			}
			if lf := resp.Header.Get("X-C09-Loaded-Format"); lf != fmt.Sprint(f) {
				bad("http-wrong-format", "request-loopback", fmt.Sprintf("server side LoadFromHTTPRequest reports format %s, dumped as %d", lf, f), nil)
			}
			if resp.StatusCode == http.StatusNotAcceptable {
				bad("http-dump-error", "response-loopback", fmt.Sprintf("server side DumpToHTTPResponse failed for Accept %q: %s", useAccept, resp.Header.Get("X-C09-Dump-Error")), nil)
				return
			}
			ct := resp.Header.Get("Content-Type")
			body, _ := io.ReadAll(resp.Body)
			resp.Body = io.NopCloser(bytes.NewReader(body))
			got := &c09Val{}
			_, lerr := dsd.LoadFromHTTPResponse(resp, got)
			compared = true
			b.Count("http_roundtrips", 1)
			b.Count("http_loopback_roundtrips", 1)
			cts := resp.Header.Values("Content-Type")
			switch {
			case lerr != nil:
				bad("http-load-error", respWhere("response-loopback"), fmt.Sprintf("LoadFromHTTPResponse failed over loopback for Accept %q: Content-Type on the response before the dump %q, received = %q: %v", useAccept, pre, cts, lerr), map[string]any{"content_type": cts, "preset": pre})
			case !c09Equal(want, got):
				bad("http-value-differs", respWhere("response-loopback"), fmt.Sprintf("echoed value differs (Accept %q, Content-Type %q) at %s", useAccept, cts, c09Diff(reflect.ValueOf(want), reflect.ValueOf(got), "v")), nil)
			}
			checkCT(respWhere("response-loopback"), ct, body)
			for _, v := range cts[min(1, len(cts)):] {
				checkCT(respWhere("response-loopback")+"-further-value", v, body)
			}
		})
	}
	if compared {
		b.Distinct([]byte("c09.http"), in)
	}
}

// ---------------------------------------------------------------------------------
// c09.seq — multi-step histories: dump a batch, dump some more, only then load

type c09SeqItem struct {
	entry string // Dump | DumpIndent | DumpAndCompress | MimeDump | DumpToHTTPRequest | DumpToHTTPResponse
	sub   *c09Subject
	vseed uint64
	f     uint8
	comp  uint8
	blob  []byte // the returned slice itself, never copied
	hash  uint64
	mime  string
	req   *http.Request
	rec   *httptest.ResponseRecorder
	err   error
}

func c09Hash(b []byte) uint64 {
	h := fnv.New64a()
	_, _ = h.Write(b)
	return h.Sum64() ^ uint64(len(b))<<48
}

// c09SeqDump performs one dump of the history.
func c09SeqDump(r *vlib.Rand) *c09SeqItem {
	it := &c09SeqItem{vseed: r.Uint64(), comp: c09NoComp}
	switch x := r.Intn(12); {
	case x < 2:
		it.entry = "Dump"
	case x < 3:
		it.entry = "DumpIndent"
	case x < 8:
		it.entry = "DumpAndCompress"
		it.comp = vlib.Pick(r, uint8(dsd.GZIP), dsd.AUTO)
	case x < 9:
		it.entry = "MimeDump"
	case x < 10:
		it.entry = "DumpToHTTPRequest"
	default:
		it.entry = "DumpToHTTPResponse"
	}
	isHTTP := strings.HasPrefix(it.entry, "Mime") || strings.HasPrefix(it.entry, "DumpToHTTP")
	switch {
	case isHTTP || it.entry == "DumpIndent" || r.Chance(3, 4):
		it.sub = &c09Subjects[0]
	case r.Bool():
		it.sub = &c09Subjects[2]
	default:
		it.sub = &c09Subjects[4]
	}
	gen := func() any { return it.sub.gen(vlib.NewRand(it.vseed, "c09.sv", 0)) }
	it.f = it.sub.formats[r.Intn(len(it.sub.formats))]
	if isHTTP {
		it.f = vlib.Pick(r, uint8(dsd.JSON), dsd.CBOR, dsd.MsgPack, dsd.YAML)
	}
	if it.entry == "DumpIndent" {
		it.f = vlib.Pick(r, uint8(dsd.JSON), dsd.AUTO)
	}
	if it.f == dsd.YAML && len(c09YAMLHard(gen())) > 0 {
		it.f = dsd.CBOR // the YAML dependency findings have their own class in c09.value
	}
	switch it.entry {
	case "Dump":
		it.blob, it.err = dsd.Dump(gen(), it.f)
	case "DumpIndent":
		it.blob, it.err = dsd.DumpIndent(gen(), it.f, "  ")
	case "DumpAndCompress":
		it.blob, it.err = dsd.DumpAndCompress(gen(), it.f, it.comp)
	case "MimeDump":
		it.blob, it.mime, _, it.err = dsd.MimeDump(gen(), c09MimeOf(it.f))
	case "DumpToHTTPRequest":
		it.req = httptest.NewRequest(http.MethodPost, "http://c09.test/seq", nil)
		it.err = dsd.DumpToHTTPRequest(it.req, gen(), it.f)
	case "DumpToHTTPResponse":
		req := httptest.NewRequest(http.MethodGet, "http://c09.test/seq", nil)
		req.Header.Set("Accept", c09MimeOf(it.f))
		it.rec = httptest.NewRecorder()
		it.err = dsd.DumpToHTTPResponse(it.rec, req, gen())
	}
	it.hash = c09Hash(it.blob)
	return it
}

func c09MimeOf(f uint8) string {
	for m, mf := range c09Mime {
		if mf == f {
			return m
		}
	}
	return ""
}

// c09SeqCheck re-hashes and loads one item at the end of the history.
func c09SeqCheck(c *ctx, in []byte, it *c09SeqItem, concurrent bool) {
	b := c.b
	mode := "sequential"
	if concurrent {
		mode = "concurrent"
	}
	bad := func(kind, what string) {
		b.Violation("C09:"+kind+":"+it.entry, what, map[string]any{"class": "c09.seq", "input_hex": hex.EncodeToString(in), "entry": it.entry, "format": c09Name(it.f),
			"compression": c09CompName(it.comp), "subject": it.sub.kind, "history": mode, "build": c.spec.Kind})
	}
	combo := fmt.Sprintf("%s(v, %s/%s)", it.entry, c09Name(it.f), c09CompName(it.comp))
	if it.err != nil {
		bad("seq-dump-error", fmt.Sprintf("%s failed inside a multi-step history: %v", combo, it.err))
		return
	}
	b.Count("seq_blobs", 1)
	b.Seen("seq_entry_points", it.entry)
	if it.blob != nil && c09Hash(it.blob) != it.hash {
		bad("returned-blob-changed", fmt.Sprintf("the slice returned by %s changed after the call returned (later dumps wrote into it): the caller's blob is not its own", combo))
	}
	want := it.sub.gen(vlib.NewRand(it.vseed, "c09.sv", 0))
	got := it.sub.fresh()
	var lf uint8
	var lerr error
	switch it.entry {
	case "MimeDump":
		lf, lerr = dsd.MimeLoad(it.blob, it.mime, got)
	case "DumpToHTTPRequest":
		lf, lerr = dsd.LoadFromHTTPRequest(it.req, got)
	case "DumpToHTTPResponse":
		lf, lerr = dsd.LoadFromHTTPResponse(it.rec.Result(), got)
	default:
		lf, lerr = dsd.Load(it.blob, got)
	}
	if it.f == dsd.RAW {
		if !errors.Is(lerr, dsd.ErrIsRaw) || lf != dsd.RAW {
			bad("seq-load-error", fmt.Sprintf("%s: after further dumps, Load returns (format %d, %v) for the RAW blob", combo, lf, lerr))
			return
		}
		payload := it.blob[1:]
		if it.comp != c09NoComp {
			un, err := c09Gunzip(it.blob[1:])
			if err != nil || len(un) < 1 {
				bad("seq-load-error", fmt.Sprintf("%s: after further dumps the blob no longer gunzips: %v", combo, err))
				return
			}
			payload = un[1:]
		}
		if !bytes.Equal(payload, want.([]byte)) {
			bad("seq-value-differs", fmt.Sprintf("%s: after further dumps the blob holds other bytes than were dumped", combo))
		}
		return
	}
	switch {
	case lerr != nil:
		bad("seq-load-error", fmt.Sprintf("%s loaded only after further dumps fails: %v", combo, lerr))
	case lf != c09Resolved(it.f):
		bad("seq-wrong-format", fmt.Sprintf("%s loaded after further dumps reports format %s", combo, c09Name(lf)))
	case !c09Equal(want, got):
		bad("seq-value-differs", fmt.Sprintf("%s loaded after further dumps does not yield its own value: differs at %s", combo, c09Diff(reflect.ValueOf(want), reflect.ValueOf(got), "v")))
	}
}

func c09Seq(c *ctx, seed uint64) {
	b := c.b
	in := u64le(seed)
	b.Eval(1)
	r := vlib.NewRand(seed, "c09.seq", 0)
	concurrent := r.Chance(1, 4)
	k, more := r.Range(2, 6), r.Range(1, 4)
	c.call("c09.seq", in, func() {
		var items []*c09SeqItem
		if !concurrent {
			for i := 0; i < k+more; i++ { // the batch, then a few more; nothing is loaded or copied in between
				items = append(items, c09SeqDump(r))
			}
		} else {
			// two goroutines dump their own values at the same time
			var wg sync.WaitGroup
			var mu sync.Mutex
			for g := 0; g < 2; g++ {
				gr := vlib.NewRand(seed, "c09.seq.g", uint64(g))
				wg.Add(1)
				go func() {
					defer wg.Done()
					defer func() {
						if x := recover(); x != nil {
							b.Violation("C09:panic:c09.seq:concurrent-dump", fmt.Sprintf("a dump panicked while another goroutine was dumping: %v", x),
								map[string]any{"class": "c09.seq", "input_hex": hex.EncodeToString(in), "build": c.spec.Kind})
						}
					}()
					var mine []*c09SeqItem
					for i := 0; i < k+more; i++ {
						mine = append(mine, c09SeqDump(gr))
					}
					mu.Lock()
					items = append(items, mine...)
					mu.Unlock()
				}()
			}
			wg.Wait()
			b.Count("seq_concurrent_histories", 1)
		}
		for _, it := range items {
			c09SeqCheck(c, in, it, concurrent)
		}
		b.Max("seq_max_dumps_before_first_load", int64(len(items)))
		b.Distinct([]byte("c09.seq"), in)
	})
}

// ---------------------------------------------------------------------------------
// c09.bytes — totality
//
// Hostile inputs are not decoded inside the shard process: a decoder that trusts a length
// header dies with "fatal error: out of memory", which no recover() can turn into an
// observation. The shard writes its input list to a file and lets grandchild processes
// (class c09.batch, same binary) work through it; before every portbase call the
// grandchild notes (index, call) in a progress file, so a dead grandchild names its
// killer; the list is then resumed after the killer. Plain and checkptr grandchildren
// run under RLIMIT_AS = 2 GiB so that the verdict does not depend on the machine's RAM:
// no input here is larger than 4 KiB (<= 1 MiB after decompression).

var c09Targets = []struct {
	name  string
	fresh func() any
}{
	{"struct", func() any { return &c09Val{} }},
	{"map", func() any { return &map[string]any{} }},
	{"iface", func() any { var x any; return &x }},
	{"bytes", func() any { return &[]byte{} }},
	{"strings", func() any { return &[]string{} }},
	{"gencode", func() any { return &c09G{} }},
	{"meta", func() any { return &record.Meta{} }},
}

var c09ContentTypes = []string{"application/json", "application/cbor", "application/msgpack", "application/yaml", "text/yml; charset=utf-8", "", "*/*", "text/html"}

var (
	c09Progress *os.File
	c09Index    int
)

func c09Mark(what string) {
	if c09Progress != nil {
		line := fmt.Sprintf("%-127s\n", fmt.Sprintf("%d %s", c09Index, what))
		_, _ = c09Progress.WriteAt([]byte(line), 0)
	}
}

// c09InnerFormat names the serialization format an identified blob claims (diagnostics
// and signatures only).
func c09InnerFormat(in []byte, gz bool) string {
	if gz {
		un, err := c09GunzipLimit(in, 16)
		if err != nil || len(un) == 0 {
			return "none"
		}
		return c09Name(un[0])
	}
	if len(in) == 0 {
		return "none"
	}
	if in[0] == dsd.GZIP {
		return c09InnerFormat(in[1:], true)
	}
	return c09Name(in[0])
}

func c09GunzipLimit(b []byte, n int64) ([]byte, error) {
	zr, err := gzip.NewReader(bytes.NewReader(b))
	if err != nil {
		return nil, err
	}
	out, err := io.ReadAll(io.LimitReader(zr, n))
	if len(out) > 0 {
		return out, nil
	}
	return out, err
}

func c09Bytes(c *ctx, in []byte) {
	b := c.b
	b.Eval(1)
	b.Count("hostile_inputs", 1)
	returned := false
	check := func(err error) {
		returned = true
		if err != nil {
			b.Count("load_errors", 1)
		} else {
			b.Count("load_values", 1)
		}
	}
	do := func(what string, fn func()) {
		c09Mark(what)
		c.call("c09.bytes", in, fn)
	}
	fLoad := c09InnerFormat(in, false)
	fGz := c09InnerFormat(in, true)
	for ti, tg := range c09Targets {
		tg := tg
		do("Load:"+fLoad+":"+tg.name, func() {
			_, err := dsd.Load(exact(in), tg.fresh())
			check(err)
		})
		for _, comp := range c09Compressions() {
			comp := comp
			do("DecompressAndLoad:"+fGz+":"+tg.name, func() {
				_, err := dsd.DecompressAndLoad(exact(in), comp, tg.fresh())
				check(err)
			})
		}
		if ti == 0 {
			for _, comp := range []uint8{dsd.AUTO, dsd.JSON, 255} {
				comp := comp
				do("DecompressAndLoad-"+c09Name(comp)+":"+fGz+":"+tg.name, func() {
					_, err := dsd.DecompressAndLoad(exact(in), comp, tg.fresh())
					check(err)
				})
			}
		}
		// the same bytes without identifier through the explicit-format and mime entry points
		for _, f := range []uint8{dsd.JSON, dsd.CBOR, dsd.MsgPack, dsd.YAML, dsd.GenCode} {
			f := f
			do("LoadAsFormat:"+c09Name(f)+":"+tg.name, func() {
				check(dsd.LoadAsFormat(exact(in), f, tg.fresh()))
			})
		}
		if ti == 0 {
			for _, f := range []uint8{dsd.AUTO, dsd.RAW, dsd.GZIP, dsd.LIST, 2, 128, 255} {
				f := f
				do("LoadAsFormat:"+c09Name(f)+":"+tg.name, func() {
					err := dsd.LoadAsFormat(exact(in), f, tg.fresh())
					check(err)
					if f == dsd.RAW && !errors.Is(err, dsd.ErrIsRaw) {
						b.Violation("C09:raw-contract:LoadAsFormat", fmt.Sprintf("LoadAsFormat(RAW) returned %v, not ErrIsRaw", err), map[string]any{"class": "c09.bytes", "input_hex": hex.EncodeToString(trunc(in, 4096))})
					}
				})
			}
			for _, ct := range c09ContentTypes {
				ct := ct
				do("MimeLoad:"+c09Name(dsd.FormatFromAccept(ct))+":"+tg.name, func() {
					_, err := dsd.MimeLoad(exact(in), ct, tg.fresh())
					check(err)
				})
			}
		}
		if ti <= 2 {
			do("LoadFromHTTPRequest:MsgPack:"+tg.name, func() {
				req := httptest.NewRequest(http.MethodPost, "http://c09.test/", bytes.NewReader(in))
				req.Header.Set("Content-Type", "application/msgpack")
				_, err := dsd.LoadFromHTTPRequest(req, tg.fresh())
				check(err)
			})
		}
	}
	if returned {
		b.Distinct([]byte("c09.bytes"), in)
	}
}

func c09LimitAS(c *ctx) {
	if c.spec.Kind == "plain" || c.spec.Kind == "checkptr" {
		lim := syscall.Rlimit{Cur: 2 << 30, Max: 2 << 30}
		if err := syscall.Setrlimit(syscall.RLIMIT_AS, &lim); err != nil {
			c.b.Note("c09: setrlimit failed: %v", err)
		} else {
			c.b.Count("batches_with_rlimit_as_2GiB", 1)
		}
	}
}

// c09Batch is the grandchild: input = "<file>\x00<from>\x00<to>".
func c09Batch(c *ctx, in []byte) {
	parts := strings.Split(string(in), "\x00")
	if len(parts) != 3 {
		return
	}
	var from, to int
	fmt.Sscan(parts[1], &from)
	fmt.Sscan(parts[2], &to)
	raw, err := os.ReadFile(parts[0])
	if err != nil {
		c.b.Inconclusive("c09.batch: cannot read %s: %v", parts[0], err)
		return
	}
	var inputs [][]byte
	for len(raw) >= 4 {
		n := int(binary.LittleEndian.Uint32(raw))
		if n > len(raw)-4 {
			break
		}
		inputs = append(inputs, raw[4:4+n:4+n])
		raw = raw[4+n:]
	}
	runtime.GOMAXPROCS(2)
	c09LimitAS(c)
	c09Progress, _ = os.Create(filepath.Join(c.dir, "progress"))
	for i := from; i < to && i < len(inputs); i++ {
		c09Index = i
		c09Bytes(c, inputs[i])
	}
	c09Index = -1
	c09Mark("done")
}

func c09FatalLine(stderr string) string {
	for _, ln := range strings.Split(stderr, "\n") {
		ln = strings.TrimSpace(ln)
		if strings.HasPrefix(ln, "fatal error:") || strings.HasPrefix(ln, "panic:") || strings.Contains(ln, "ERROR: AddressSanitizer") || strings.HasPrefix(ln, "runtime: goroutine stack exceeds") {
			ln = strings.TrimPrefix(ln, "fatal error: ")
			ln = strings.TrimPrefix(ln, "runtime: ")
			if len(ln) > 60 {
				ln = ln[:60]
			}
			return strings.ReplaceAll(ln, " ", "-")
		}
	}
	return "unknown"
}

// c09RunHostile lets grandchildren decode the inputs and merges what they observed.
func c09RunHostile(c *ctx, inputs [][]byte) {
	if len(inputs) == 0 {
		return
	}
	b := c.b
	cfg := vlib.Load()
	self, err := os.Executable()
	if err != nil {
		b.Inconclusive("c09: cannot find own executable: %v", err)
		return
	}
	var buf bytes.Buffer
	for _, in := range inputs {
		var l [4]byte
		binary.LittleEndian.PutUint32(l[:], uint32(len(in)))
		buf.Write(l[:])
		buf.Write(in)
	}
	file := filepath.Join(c.dir, "hostile.bin")
	if err := os.WriteFile(file, buf.Bytes(), 0o644); err != nil {
		b.Inconclusive("c09: cannot write batch file: %v", err)
		return
	}
	defer os.Remove(file)
	type seg struct{ from, to int }
	var queue []seg
	for from := 0; from < len(inputs); from += 100 { // a death costs at most one chunk
		queue = append(queue, seg{from, min(from+100, len(inputs))})
	}
	for attempt := 1; len(queue) > 0; attempt++ {
		sg := queue[0]
		queue = queue[1:]
		if sg.from >= sg.to {
			continue
		}
		if attempt > 400 {
			b.Inconclusive("c09.bytes: more than 400 grandchild runs in shard %d; %d inputs not decoded", c.spec.Shard, sg.to-sg.from)
			continue
		}
		sp := c.spec
		sp.Journal = false
		sp.ReplayClass = "c09.batch"
		sp.ReplayInput = hex.EncodeToString([]byte(fmt.Sprintf("%s\x00%d\x00%d", file, sg.from, sg.to)))
		res := vlib.RunChild(cfg, vlib.ChildSpec{Name: fmt.Sprintf("c09b-%s-%03d-%03d", c.spec.Kind, c.spec.Shard, attempt), Bin: self, Spec: sp,
			Timeout: 15 * time.Minute, Race: c.spec.Kind == "race", Env: []string{"ASAN_OPTIONS=abort_on_error=0:halt_on_error=1:detect_leaks=0"}})
		for _, rr := range res.Races {
			if !rr.HarnessOnly() {
				b.Violation("C09:race:"+rr.Signature(), "data race reported in a pure codec function", map[string]any{"report": rr.Text})
			}
		}
		if res.Done {
			var gb vlib.Batch
			if err := json.Unmarshal(res.Out, &gb); err != nil {
				b.Inconclusive("c09.bytes: unreadable grandchild result: %v", err)
			} else {
				b.Eval(gb.Evals - 1)
				for k, v := range gb.Counters {
					b.Count(k, v)
				}
				for k, ms := range gb.SeenSets {
					for _, m := range ms {
						b.Seen(k, m)
					}
				}
				for _, v := range gb.Violations {
					for i := 0; i < v.Count; i++ {
						b.Violation(v.Sig, v.What, v.Detail)
					}
				}
				for _, n := range gb.Inconcl {
					b.Inconclusive("%s", n)
				}
				for _, n := range gb.Notes {
					b.Note("%s", n)
				}
				for i := sg.from; i < sg.to; i++ {
					b.Distinct([]byte("c09.bytes"), inputs[i])
				}
				b.Count("hostile_batches", 1)
			}
			_ = os.RemoveAll(res.Dir)
			continue
		}
		// the grandchild died (or hung): name the killer and resume after it
		idx, what := -1, ""
		if p, err := os.ReadFile(filepath.Join(res.Dir, "progress")); err == nil {
			fmt.Sscan(string(p), &idx, &what)
		}
		stderr, _ := os.ReadFile(filepath.Join(res.Dir, "stderr"))
		_ = os.RemoveAll(res.Dir)
		if idx < sg.from || idx >= sg.to {
			b.Inconclusive("c09.bytes: grandchild for inputs [%d,%d) of shard %d ended (exit %d signal %q timeout %v) without usable progress; stderr: %s",
				sg.from, sg.to, c.spec.Shard, res.Exit, res.Signal, res.TimedOut, trunc(stderr, 600))
			continue
		}
		if res.TimedOut {
			b.Inconclusive("c09.bytes: %s did not return within the 15 min watchdog for input %x", what, trunc(inputs[idx], 64))
		} else {
			site := c09FatalLine(string(stderr))
			if site == "unknown" && res.Signal != "" {
				site = "signal-" + strings.ReplaceAll(res.Signal, " ", "-")
			}
			b.Count("hostile_process_deaths", 1)
			b.Violation("C09:fatal:"+site+":"+what,
				fmt.Sprintf("the process died (%s; exit=%d signal=%q) inside dsd.%s for a %d-byte input: neither a value nor an error was returned", site, res.Exit, res.Signal, what, len(inputs[idx])),
				map[string]any{"class": "c09.bytes", "input_hex": hex.EncodeToString(trunc(inputs[idx], 4096)), "input_len": len(inputs[idx]), "call": what, "build": c.spec.Kind,
					"stderr_head": string(trunc(stderr, 1800))})
		}
		// what the dead process had observed before the killer is lost with it: redo that part
		queue = append(queue, seg{sg.from, idx}, seg{idx + 1, sg.to})
	}
}

// c09Compressions lists the compression ids the library itself accepts (asked through
// ValidateCompressionFormat, so a new compression format is picked up without an edit).
func c09Compressions() []uint8 {
	var out []uint8
	for id := 1; id < 256; id++ {
		if v, ok := dsd.ValidateCompressionFormat(uint8(id)); ok && v == uint8(id) {
			out = append(out, uint8(id))
		}
	}
	return out
}

// c09Compress makes a well-formed compressed stream of b for a compression id with the
// standard library (nil if the harness has no coder for that id).
func c09Compress(comp uint8, b []byte, level int) []byte {
	switch comp {
	case dsd.GZIP:
		var buf bytes.Buffer
		zw, err := gzip.NewWriterLevel(&buf, level)
		if err != nil {
			return nil
		}
		_, _ = zw.Write(b)
		_ = zw.Close()
		return buf.Bytes()
	}
	return nil
}

// c09Wrapped returns "valid wrapper around hostile content" inputs for one content: per
// compression id the bare well-formed stream (the form DecompressAndLoad takes) and the
// identified blob (the form Load takes), in several encodings of the same content, plus
// the content wrapped twice (compressed blob inside a compressed blob).
func c09Wrapped(content []byte, r *vlib.Rand) [][]byte {
	var out [][]byte
	levels := []int{gzip.BestSpeed, gzip.NoCompression, gzip.BestCompression, gzip.HuffmanOnly}
	for _, comp := range c09Compressions() {
		lv := levels
		if r != nil { // PRNG part: one encoding per content
			lv = []int{levels[r.Intn(len(levels))]}
		}
		for _, level := range lv {
			z := c09Compress(comp, content, level)
			if z == nil {
				continue
			}
			out = append(out, z, append([]byte{comp}, z...))
			if level == lv[0] {
				// nested: the identified blob as the content of another well-formed stream
				z2 := c09Compress(comp, append([]byte{comp}, z...), level)
				out = append(out, z2, append([]byte{comp}, z2...))
				// multi-member stream: two well-formed streams back to back
				out = append(out, append([]byte{comp}, append(append([]byte{}, z...), z...)...))
			}
		}
	}
	keep := out[:0]
	for _, o := range out {
		if len(o) <= 4096 { // never cut a wrapper: it must stay well-formed
			keep = append(keep, o)
		}
	}
	return keep
}

func c09Gzip(b []byte) []byte {
	var buf bytes.Buffer
	zw, _ := gzip.NewWriterLevel(&buf, gzip.BestSpeed)
	_, _ = zw.Write(b)
	_ = zw.Close()
	return buf.Bytes()
}

func c09Cap(in []byte) []byte { return trunc(in, 4096) }

// c09ValidDump returns a valid dump of a small generated value.
func c09ValidDump(r *vlib.Rand) []byte {
	var blob []byte
	var err error
	switch r.Intn(8) {
	case 0:
		blob, err = dsd.Dump(c09GenMeta(r), dsd.GenCode)
	case 1:
		blob, err = dsd.Dump(c09GenG(r), dsd.GenCode)
	case 2:
		blob, err = dsd.Dump(r.Bytes(r.Intn(20)), dsd.RAW)
	default:
		f := vlib.Pick(r, uint8(dsd.JSON), dsd.CBOR, dsd.MsgPack, dsd.YAML)
		if r.Chance(1, 3) {
			blob, err = dsd.DumpAndCompress(c09GenVal(r), f, dsd.GZIP)
		} else {
			blob, err = dsd.Dump(c09GenVal(r), f)
		}
	}
	if err != nil {
		return []byte{dsd.JSON, '{', '}'}
	}
	return blob
}

var c09Attacks = [][]byte{
	{dsd.MsgPack, 0xdd, 0xff, 0xff, 0xff, 0xff},                            // array32 of 2^32-1
	{dsd.MsgPack, 0xdf, 0xff, 0xff, 0xff, 0xff},                            // map32
	{dsd.MsgPack, 0xc6, 0xff, 0xff, 0xff, 0xff},                            // bin32
	{dsd.MsgPack, 0xdb, 0x7f, 0xff, 0xff, 0xff, 'a'},                       // str32
	{dsd.MsgPack, 0xc9, 0xff, 0xff, 0xff, 0xff, 0x01},                      // ext32
	{dsd.MsgPack, 0x81, 0xa1, 'M', 0xdf, 0x7f, 0xff, 0xff, 0xff},           // map32 inside a struct field
	{dsd.MsgPack, 0x81, 0xa2, 'S', 'a', 0xdd, 0x7f, 0xff, 0xff, 0xff},      // array32 inside a struct field
	{dsd.CBOR, 0x9b, 0xff, 0xff, 0xff, 0xff, 0xff, 0xff, 0xff, 0xff},       // array 2^64-1
	{dsd.CBOR, 0xbb, 0x7f, 0xff, 0xff, 0xff, 0xff, 0xff, 0xff, 0xff},       // map
	{dsd.CBOR, 0x5b, 0x7f, 0xff, 0xff, 0xff, 0xff, 0xff, 0xff, 0xff},       // bytes
	{dsd.CBOR, 0x7b, 0x00, 0x00, 0x00, 0x01, 0x00, 0x00, 0x00, 0x00},       // text 4 GiB
	{dsd.CBOR, 0x9a, 0x00, 0x01, 0xff, 0xff},                               // array just below the decoder limit
	{dsd.CBOR, 0x9f},                                                       // indefinite array, no break
	{dsd.CBOR, 0xc2, 0x5b, 0xff, 0xff, 0xff, 0xff, 0xff, 0xff, 0xff, 0xff}, // bignum
	{dsd.GenCode, 0xff, 0xff, 0xff, 0xff, 0xff, 0xff, 0xff, 0xff, 0xff, 0xff, 0x01},
	{dsd.GZIP}, {dsd.GZIP, 0x1f, 0x8b}, {dsd.GZIP, 0x1f, 0x8b, 8, 0, 0, 0, 0, 0, 0, 0xff},
	{dsd.JSON}, {dsd.RAW}, {dsd.AUTO}, {dsd.AUTO, '{', '}'}, {dsd.LIST, 1, 2}, {0x80}, {0x80, 0x01, '{', '}'}, {0xca, 0x00, '{', '}'}, {0xff, 0xff, 0xff},
	[]byte("\x59a: &a [*a, *a, *a, *a, *a, *a, *a, *a, *a]\nb: &b [*a, *a, *a, *a, *a, *a, *a, *a, *a]\nc: &c [*b, *b, *b, *b, *b, *b, *b, *b, *b]\nd: &d [*c, *c, *c, *c, *c, *c, *c, *c, *c]\ne: &e [*d, *d, *d, *d, *d, *d, *d, *d, *d]\nf: [*e, *e, *e, *e, *e, *e, *e, *e, *e]\n"),
	[]byte("\x59? [a, b]\n: c\n"), []byte("\x59!!binary |\n  R0lG\n"), []byte("\x59<<: *x\n"), []byte("\x59- !!float 'x'\n"), []byte("\x59\t\x00"),
	[]byte("\x4a{\"I\":1e400}"), []byte("\x4a{\"I8\":300}"), []byte("\x4a{\"Ba\":\"!!!\"}"), []byte("\x4a{\"Inp\":{\"P\":[]}}"), []byte("\x4a\xef\xbb\xbf{}"),
}

func runC09(c *ctx) {
	s, ns := c.spec.Shard, c.spec.NShards
	b := c.b
	if s == 0 {
		// samples: real dumps of one small value
		small := &c09Inner{N: 7, Str: "é", Bs: []byte{1, 2}, L: []string{"a"}}
		for _, f := range []uint8{dsd.JSON, dsd.AUTO, dsd.CBOR} {
			blob, err := dsd.Dump(small, f)
			got := &c09Inner{}
			lf, lerr := dsd.Load(blob, got)
			b.Sample(map[string]any{"class": "c09.value", "format": c09Name(f), "dump_hex": hex.EncodeToString(blob), "dump_err": fmt.Sprint(err), "load_format": lf, "load_err": fmt.Sprint(lerr), "equal": c09Equal(small, got)})
		}
		req := httptest.NewRequest(http.MethodGet, "http://c09.test/", nil)
		req.Header.Set("Accept", "application/cbor;q=0.9, */*")
		rec := httptest.NewRecorder()
		err := dsd.DumpToHTTPResponse(rec, req, small)
		got := &c09Inner{}
		lf, lerr := dsd.LoadFromHTTPResponse(rec.Result(), got)
		b.Sample(map[string]any{"class": "c09.http", "accept": "application/cbor;q=0.9, */*", "dump_err": fmt.Sprint(err), "content_type": rec.Header().Get("Content-Type"),
			"body_hex": hex.EncodeToString(rec.Body.Bytes()), "load_format": lf, "load_err": fmt.Sprint(lerr), "equal": c09Equal(small, got)})
	}

	// (1) values
	rv := c.rand("values")
	div := 1 // the sanitizer builds run a prefix (a third) of the plain build's case lists
	if c.spec.Kind != "plain" {
		div = 3
	}
	debug.SetGCPercent(400)
	runtime.GOMAXPROCS(2) // single-threaded work; keeps GC workers from fighting 16 sibling processes
	nv := c.n(8000, 60000) / ns / div
	for i := 0; i < nv; i++ {
		c09Value(c, rv.Uint64())
	}
	// (2) http
	rh := c.rand("http")
	nh := c.n(9600, 72000) / ns / div
	for i := 0; i < nh; i++ {
		c09HTTP(c, rh.Uint64())
	}
	if c09Srv != nil {
		c09Srv.Close()
	}
	// (2b) multi-step histories
	rs := c.rand("seq")
	nsq := c.n(3200, 24000) / ns / div
	for i := 0; i < nsq; i++ {
		c09Seq(c, rs.Uint64())
	}
	// (3) hostile bytes, collected and decoded in grandchildren
	// Builds that cannot run under an address-space limit are kept away from inputs that
	// make a decoder allocate by length header: where such an allocation does not kill the
	// process it costs seconds to minutes of page faults in the sanitizer's shadow memory,
	// and whether it kills depends on the machine. The race build (whose only addition for
	// single-threaded decoding is checkptr, which has its own build here) and the asan build
	// (observed: the kernel OOM killer ends it on an 11-byte MsgPack input) skip the hostile
	// class; plain and checkptr run it under RLIMIT_AS.
	if c.spec.Kind == "race" || c.spec.Kind == "asan" {
		return
	}
	limited := c.spec.Kind == "plain" || c.spec.Kind == "checkptr"
	var hostile [][]byte
	rwrap := c.rand("wrap")
	wrapping := false
	var add func(in []byte)
	add = func(in []byte) {
		hostile = append(hostile, append([]byte{}, c09Cap(in)...))
		if !wrapping && limited && len(in) <= 2048 && rwrap.Chance(1, 4) {
			wrapping = true
			ws := c09Wrapped(in, rwrap)
			if len(ws) > 0 {
				add(ws[rwrap.Intn(len(ws))])
			}
			wrapping = false
		}
	}
	if s == 0 {
		add(nil)
		for id := 0; id < 256; id++ {
			add([]byte{byte(id)})
			add([]byte{byte(id), '{', '}'})
		}
	}
	if s == 0 && limited {
		// valid wrapper around hostile content: nothing, a lone identifier byte of every id,
		// every attack blob, every truncation of some valid dumps
		for _, w := range c09Wrapped(nil, nil) {
			add(w)
		}
		rw := vlib.NewRand(c.spec.Seed, "C09/wrapped", 0)
		for id := 0; id < 256; id++ {
			enc := rw // one encoding for most ids, all four for the ids dsd knows
			if _, known := c09FmtName[uint8(id)]; known || id == 255 || id == 128 {
				enc = nil
			}
			for _, w := range c09Wrapped([]byte{byte(id)}, enc) {
				add(w)
			}
		}
		for _, a := range c09Attacks {
			for _, w := range c09Wrapped(a, rw) {
				add(w)
			}
		}
		for k := 0; k < 6; k++ {
			d := c09Cap(c09ValidDump(rw))
			step := 1
			if len(d) > 40 {
				step = len(d) / 40
			}
			for n := 0; n < len(d); n += step {
				for _, w := range c09Wrapped(d[:n], rw) {
					add(w)
				}
			}
		}
		for _, a := range c09Attacks {
			add(a)
			if len(a) > 1 {
				add(append([]byte{dsd.GZIP}, c09Gzip(a)...))
			}
		}
		// small gzip bombs (expand to 1 MiB) and deep nesting behind compression
		for _, fill := range []string{"[", "{\"a\":", "- ", "\x91", "\x81", " "} {
			for _, f := range []uint8{dsd.JSON, dsd.YAML, dsd.MsgPack, dsd.CBOR} {
				inner := append([]byte{f}, bytes.Repeat([]byte(fill), (1<<20)/len(fill))...)
				add(append([]byte{dsd.GZIP}, c09Gzip(inner)...))
			}
		}
	}
	rb := c.rand("bytes")
	nb := c.n(24000, 500000) / ns / div
	for len(hostile) < nb {
		switch rb.Intn(8) {
		case 0: // every truncation of a valid dump (bounded)
			d := c09Cap(c09ValidDump(rb))
			step := 1
			if len(d) > 64 {
				step = len(d) / 48
			}
			for n := 0; n < len(d); n += step {
				add(d[:n])
			}
		case 1, 2: // byte flips / overwrites
			d := append([]byte{}, c09Cap(c09ValidDump(rb))...)
			for k, n := 0, rb.Range(1, 4); k < n && len(d) > 0; k++ {
				p := rb.Intn(len(d))
				if rb.Bool() {
					d[p] ^= 1 << uint(rb.Intn(8))
				} else {
					d[p] = byte(rb.Uint64())
				}
			}
			add(d)
		case 3: // splice two dumps
			d1, d2 := c09Cap(c09ValidDump(rb)), c09Cap(c09ValidDump(rb))
			add(append(append([]byte{}, d1[:rb.Intn(len(d1)+1)]...), d2[rb.Intn(len(d2)+1):]...))
		case 4: // valid identifier + random body
			id := vlib.Pick(rb, uint8(dsd.JSON), dsd.CBOR, dsd.MsgPack, dsd.YAML, dsd.GenCode, dsd.RAW, dsd.GZIP, dsd.AUTO, dsd.LIST)
			add(append([]byte{id}, rb.Bytes(rb.Intn(64))...))
		case 5: // gzip-wrapped: valid inner, corrupted inner, corrupted or truncated gzip stream
			inner := append([]byte{}, c09Cap(c09ValidDump(rb))...)
			if rb.Bool() && len(inner) > 0 {
				inner[rb.Intn(len(inner))] ^= byte(1 + rb.Intn(255))
			}
			z := c09Gzip(inner)
			if rb.Chance(1, 3) {
				z[rb.Intn(len(z))] ^= byte(1 + rb.Intn(255))
			}
			if rb.Chance(1, 4) {
				z = z[:rb.Intn(len(z))]
			}
			add(append([]byte{dsd.GZIP}, z...))
		case 6: // structured text fragments
			frag := []string{"{", "}", "[", "]", ":", ",", "\"", "a", "1", "-", "null", "true", "\\u00", "\\", "\n", " ", "- ", "&a", "*a", "!!", "|", ">", "? ", "'", "e9", ".", "~", "#", "%", "---", "..."}
			var sb bytes.Buffer
			sb.WriteByte(vlib.Pick(rb, uint8(dsd.JSON), dsd.YAML))
			for k, n := 0, rb.Range(1, 24); k < n; k++ {
				sb.WriteString(vlib.Pick(rb, frag...))
			}
			add(sb.Bytes())
		default:
			add(rb.Bytes(rb.Intn(48)))
		}
	}
	c09RunHostile(c, hostile)
}
