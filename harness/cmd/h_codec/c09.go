package main

import (
	"bytes"
	"compress/gzip"
	"encoding/binary"
	"encoding/hex"
	"errors"
	"fmt"
	"io"
	"math"
	"mime"
	"net/http"
	"net/http/httptest"
	"reflect"
	"strings"
	"sync"
	"unicode/utf8"

	"github.com/safing/portbase/database/record"
	"github.com/safing/portbase/formats/dsd"

	"verifharness/internal/vlib"
)

// C09 — DSD dump/load round-trips in every format, compressed or over HTTP.
//
// Three case classes, each identified by (class, input bytes) so that --replay re-runs it:
//   c09.value  input = 8-byte case seed -> one generated value, dumped and loaded in every
//              format it is representable in x {no compression, GZIP, AUTO compression}
//   c09.http   input = 8-byte case seed -> one value, one format, one Accept header;
//              request direction and response direction through httptest (recorder and,
//              for a part of the cases, a real loopback server)
//   c09.bytes  input = a byte string fed to every load entry point and several targets
//
// Equality is reflect.DeepEqual after normalising nil == empty for slices and maps.

func init() {
	props["C09"] = &propImpl{
		shards: func(cfg vlib.Cfg) int { return cfg.N(8, 32) },
		run:    runC09,
		rule: "c09.value: PRNG values of the harness schema (nested structs, all integer widths within +-2^53, finite floats, valid-UTF-8 strings incl. YAML-significant and non-ASCII ones, byte slices, string slices, maps, pointers, nil and empty values; record.Meta and a hand-written GenCode type; raw byte slices) x formats {JSON,CBOR,MsgPack,YAML,GenCode,RAW,AUTO} the value is representable in x compression {none,GZIP,AUTO}; " +
			"c09.http: value x format x Accept header from a media-type grammar (supported, alias, wildcard and unsupported ranges, parameters, q-values, case, optional whitespace), request and response direction; " +
			"c09.bytes: truncations / bit flips / splices of valid dumps, identifier-prefixed random bytes, gzip-wrapped garbage, decoder length-header attacks, random bytes (<= 4 KiB) into 7 target types through Load, LoadAsFormat, DecompressAndLoad, MimeLoad. " +
			"distinct = distinct (class,input) pairs; non-trivial = at least one dump succeeded and its load was compared (value/http) or at least one entry point returned (bytes)",
		finish: func(cfg vlib.Cfg, r *vlib.Report) {
			r.Floor(r.Counter("roundtrips") >= int64(cfg.N(20000, 200000)), "roundtrips=%d", r.Counter("roundtrips"))
			r.Floor(r.Counter("http_roundtrips") >= int64(cfg.N(4000, 40000)), "http_roundtrips=%d", r.Counter("http_roundtrips"))
			r.Floor(r.Counter("hostile_inputs") >= int64(cfg.N(10000, 1000000)), "hostile_inputs=%d", r.Counter("hostile_inputs"))
			r.Floor(r.SeenCount("format_x_compression") >= 21, "format x compression combinations executed: %d of 21", r.SeenCount("format_x_compression"))
			r.Floor(r.SeenCount("http_paths") >= 3, "http paths executed: %d", r.SeenCount("http_paths"))
			r.Assume("values are restricted to what every format can represent: valid UTF-8, finite floats, integers within +-2^53 (narrow widths: full range), no pointer to a nil slice/map")
			r.Assume("RAW contract: Load reports RAW and returns ErrIsRaw; the payload is the bytes after the identifier")
			r.Assume("an Accept header 'names a supported format' when one of its comma-separated ranges is application/{json,cbor,msgpack,yaml} (any case, parameters after ';' without whitespace before the ';'); wildcard = */* or type/*")
		},
	}
	classes["c09.value"] = func(c *ctx, in []byte) {
		if len(in) >= 8 {
			c09Value(c, binary.LittleEndian.Uint64(in))
		}
	}
	classes["c09.http"] = func(c *ctx, in []byte) {
		if len(in) >= 8 {
			c09HTTP(c, binary.LittleEndian.Uint64(in))
		}
	}
	classes["c09.bytes"] = c09Bytes
}

// ---------------------------------------------------------------------------------
// harness schema

type c09Inner struct {
	N   int32
	Str string
	Bs  []byte
	L   []string
	M   map[string]string
	P   *string
	Fl  float64
}

type c09Val struct {
	I   int
	I8  int8
	I16 int16
	I32 int32
	I64 int64
	U   uint
	U8  uint8
	U16 uint16
	U32 uint32
	U64 uint64
	F64 float64
	F32 float32
	Bo  bool
	S   string
	Sp  *string
	Sa  []string
	Sap *[]string
	Ba  []byte
	Bap *[]byte
	M   map[string]string
	Mp  *map[string]string
	Mi  map[string]int64
	Ip  *int64
	In  c09Inner
	Inp *c09Inner
	Ins []c09Inner
	Inm map[string]*c09Inner
}

// c09G is a hand-written GenCode-compatible type (bounds-checked decoder).
type c09G struct {
	A int64
	S string
	B []byte
	L []string
}

func (g *c09G) GenCodeMarshal(buf []byte) ([]byte, error) {
	out := buf[:0]
	out = binary.LittleEndian.AppendUint64(out, uint64(g.A))
	out = binary.AppendUvarint(out, uint64(len(g.S)))
	out = append(out, g.S...)
	out = binary.AppendUvarint(out, uint64(len(g.B)))
	out = append(out, g.B...)
	out = binary.AppendUvarint(out, uint64(len(g.L)))
	for _, s := range g.L {
		out = binary.AppendUvarint(out, uint64(len(s)))
		out = append(out, s...)
	}
	return out, nil
}

func (g *c09G) GenCodeUnmarshal(buf []byte) (uint64, error) {
	i := 0
	short := errors.New("c09G: short buffer")
	if len(buf) < 8 {
		return 0, short
	}
	g.A = int64(binary.LittleEndian.Uint64(buf))
	i = 8
	block := func() ([]byte, error) {
		l, n := binary.Uvarint(buf[i:])
		if n <= 0 {
			return nil, short
		}
		i += n
		if l > uint64(len(buf)-i) {
			return nil, short
		}
		b := buf[i : i+int(l)]
		i += int(l)
		return b, nil
	}
	b, err := block()
	if err != nil {
		return 0, err
	}
	g.S = string(b)
	if b, err = block(); err != nil {
		return 0, err
	}
	g.B = append([]byte{}, b...)
	cnt, n := binary.Uvarint(buf[i:])
	if n <= 0 || cnt > uint64(len(buf)) {
		return 0, short
	}
	i += n
	g.L = make([]string, 0, cnt)
	for k := uint64(0); k < cnt; k++ {
		if b, err = block(); err != nil {
			return 0, err
		}
		g.L = append(g.L, string(b))
	}
	return uint64(i), nil
}

// ---------------------------------------------------------------------------------
// generators

var c09SpecialStrings = []string{
	"", " ", "true", "false", "null", "~", "yes", "no", "on", "off", "y", "n", "1", "-1", "0x10", "1e3", "1.5", ".5", ".inf", ".nan", "0o17", "1_000",
	"2001-12-14", "2001-12-14t21:59:43.10-05:00", "<<", "=", "- a", "a: b", "a:b", " leading", "trailing ", "  two  ", "multi\nline", "multi\nline\n", "\nlead", "trail\n\n",
	"#comment", "a #b", "!tag", "&anchor", "*alias", "|", ">", "%", "@", "`", "[", "]", "{", "}", ",", "?", ": ", "- ", "'", "\"", "''", "\"\"", "\\", "\\n",
	"tab\there", "cr\rhere", "crlf\r\n", "\x00", "a\x00b", "\x01\x02\x1f", "\x7f", "\u0085", "\u00a0", "\u2028", "\u2029", "\ufeff", "\ufffd", "é", "日本語", "😀", "a😀b", "\U0010ffff",
	"<script>&amp;</script>", "ключ", "مرحبا", strings.Repeat("long ", 30), "key with spaces", "0", "00", "+1", "1:2", "1:20:30", "---", "...", "--- a", "null ", "Null", "NULL", "True", "~ ",
}

func c09Str(r *vlib.Rand) string {
	switch r.Intn(7) {
	case 0:
		return vlib.Pick(r, c09SpecialStrings...)
	case 1, 2:
		n := r.Intn(12)
		b := make([]byte, n)
		for i := range b {
			b[i] = byte(0x20 + r.Intn(0x5f))
		}
		return string(b)
	case 3: // unicode mix
		n := r.Intn(10)
		var sb strings.Builder
		for i := 0; i < n; i++ {
			switch r.Intn(6) {
			case 0:
				sb.WriteRune(rune(0x20 + r.Intn(0x5f)))
			case 1:
				sb.WriteRune(rune(0xa0 + r.Intn(0x500)))
			case 2:
				sb.WriteRune(rune(0x3040 + r.Intn(0x1000)))
			case 3:
				sb.WriteRune(rune(0x1f300 + r.Intn(0x300)))
			case 4:
				sb.WriteRune(vlib.Pick(r, '\n', '\t', '\r', ' ', '"', '\'', '\\', ':', '#', '-', '{', '[', ',', '&', '*', '!', '|', '>', '%', '@', '`'))
			default:
				ru := rune(r.Intn(0x11000))
				if !utf8.ValidRune(ru) || (ru >= 0xd800 && ru <= 0xdfff) {
					ru = 'x'
				}
				sb.WriteRune(ru)
			}
		}
		return sb.String()
	case 4: // control characters
		n := r.Range(1, 6)
		b := make([]byte, n)
		for i := range b {
			b[i] = byte(r.Intn(0x80))
		}
		return string(b)
	case 5:
		return vlib.Pick(r, c09SpecialStrings...) + vlib.Pick(r, c09SpecialStrings...)
	default:
		if r.Chance(1, 40) {
			return strings.Repeat(vlib.Pick(r, "ab", "é", "x y ", "\n"), r.Range(100, 3000))
		}
		return fmt.Sprintf("k%d", r.Intn(100))
	}
}

func c09Int53(r *vlib.Rand) int64 {
	switch r.Intn(5) {
	case 0:
		return vlib.Pick(r, int64(0), 1, -1, 1<<53, -(1 << 53), 1<<53-1, 1<<31, 1<<31-1, -(1 << 31), 1<<32, 255, 256, 127, 128, -128, -129, 65535, 65536)
	case 1:
		return int64(r.Intn(2000)) - 1000
	default:
		v := int64(r.Uint64() >> uint(11+r.Intn(53))) // < 2^53
		if r.Bool() {
			return -v
		}
		return v
	}
}

func c09Float(r *vlib.Rand) float64 {
	switch r.Intn(6) {
	case 0:
		return vlib.Pick(r, 0.0, math.Copysign(0, -1), 1, -1, 0.1, 1.0/3, math.MaxFloat64, -math.MaxFloat64, math.SmallestNonzeroFloat64, 1e21, 1e-7, 123456789012345678, 1<<53, 1<<63, 1e300, 5e-324, 2.2250738585072014e-308)
	case 1:
		return float64(r.Intn(2000)-1000) / 8
	case 2:
		return float64(c09Int53(r))
	default:
		for {
			f := math.Float64frombits(r.Uint64())
			if !math.IsNaN(f) && !math.IsInf(f, 0) {
				return f
			}
		}
	}
}

func c09Float32(r *vlib.Rand) float32 {
	switch r.Intn(4) {
	case 0:
		return vlib.Pick(r, float32(0), 1, -1, 0.1, math.MaxFloat32, math.SmallestNonzeroFloat32, 16777216, 1e-10)
	case 1:
		return float32(r.Intn(2000)-1000) / 8
	default:
		for {
			f := math.Float32frombits(uint32(r.Uint64()))
			if f == f && !math.IsInf(float64(f), 0) {
				return f
			}
		}
	}
}

func c09Bytes0(r *vlib.Rand) []byte {
	switch r.Intn(6) {
	case 0:
		return nil
	case 1:
		return []byte{}
	case 2:
		if r.Chance(1, 30) {
			return r.Bytes(r.Range(4096, 70000))
		}
		return r.Bytes(r.Range(1, 300))
	default:
		return r.Bytes(r.Range(1, 24))
	}
}

func c09Strs(r *vlib.Rand) []string {
	switch r.Intn(5) {
	case 0:
		return nil
	case 1:
		return []string{}
	default:
		n := r.Range(1, 5)
		out := make([]string, n)
		for i := range out {
			out[i] = c09Str(r)
		}
		return out
	}
}

func c09Map(r *vlib.Rand) map[string]string {
	switch r.Intn(5) {
	case 0:
		return nil
	case 1:
		return map[string]string{}
	default:
		n := r.Range(1, 4)
		m := make(map[string]string, n)
		for i := 0; i < n; i++ {
			m[c09Str(r)] = c09Str(r)
		}
		return m
	}
}

func c09GenInner(r *vlib.Rand) c09Inner {
	in := c09Inner{N: int32(r.Int64Boundary()), Str: c09Str(r), Bs: c09Bytes0(r), L: c09Strs(r), M: c09Map(r), Fl: c09Float(r)}
	if r.Bool() {
		s := c09Str(r)
		in.P = &s
	}
	return in
}

func c09GenVal(r *vlib.Rand) *c09Val {
	if r.Chance(1, 25) {
		return &c09Val{} // all zero / nil
	}
	v := &c09Val{
		I: int(c09Int53(r)), I8: int8(r.Int64Boundary()), I16: int16(r.Int64Boundary()), I32: int32(r.Int64Boundary()), I64: c09Int53(r),
		U8: uint8(r.Uint64()), U16: uint16(r.Uint64Boundary()), U32: uint32(r.Uint64Boundary()),
		F64: c09Float(r), F32: c09Float32(r), Bo: r.Bool(), S: c09Str(r), Sa: c09Strs(r), Ba: c09Bytes0(r), M: c09Map(r),
	}
	if x := c09Int53(r); x >= 0 {
		v.U = uint(x)
	}
	if x := c09Int53(r); x >= 0 {
		v.U64 = uint64(x)
	}
	if r.Bool() {
		s := c09Str(r)
		v.Sp = &s
	}
	if r.Bool() {
		if l := c09Strs(r); l != nil { // never a pointer to a nil slice (collapses to a nil pointer in every text format)
			v.Sap = &l
		}
	}
	if r.Bool() {
		if b := c09Bytes0(r); b != nil {
			v.Bap = &b
		}
	}
	if r.Bool() {
		if m := c09Map(r); m != nil {
			v.Mp = &m
		}
	}
	if r.Bool() {
		v.Mi = map[string]int64{}
		for i, n := 0, r.Intn(4); i < n; i++ {
			v.Mi[c09Str(r)] = c09Int53(r)
		}
	}
	if r.Bool() {
		x := c09Int53(r)
		v.Ip = &x
	}
	v.In = c09GenInner(r)
	if r.Bool() {
		in := c09GenInner(r)
		v.Inp = &in
	}
	switch r.Intn(4) {
	case 0:
	case 1:
		v.Ins = []c09Inner{}
	default:
		for i, n := 0, r.Range(1, 3); i < n; i++ {
			v.Ins = append(v.Ins, c09GenInner(r))
		}
	}
	if r.Bool() {
		v.Inm = map[string]*c09Inner{}
		for i, n := 0, r.Intn(3); i < n; i++ {
			in := c09GenInner(r)
			v.Inm[c09Str(r)] = &in
		}
	}
	return v
}

func c09GenMeta(r *vlib.Rand) *record.Meta {
	m := &record.Meta{Created: r.Int64Boundary(), Modified: r.Int64Boundary(), Expires: r.Int64Boundary(), Deleted: r.Int64Boundary()}
	if r.Bool() {
		m.MakeSecret()
	}
	if r.Bool() {
		m.MakeCrownJewel()
	}
	return m
}

func c09GenG(r *vlib.Rand) *c09G {
	return &c09G{A: r.Int64Boundary(), S: c09Str(r), B: c09Bytes0(r), L: c09Strs(r)}
}

func c09GenGInterop(r *vlib.Rand) *c09G {
	g := c09GenG(r)
	g.A = c09Int53(r)
	return g
}

// ---------------------------------------------------------------------------------
// equality: normalise nil == empty, then reflect.DeepEqual

func c09Normalise(v reflect.Value) {
	switch v.Kind() {
	case reflect.Ptr, reflect.Interface:
		if !v.IsNil() {
			c09Normalise(v.Elem())
		}
	case reflect.Struct:
		for i := 0; i < v.NumField(); i++ {
			if v.Field(i).CanSet() {
				c09Normalise(v.Field(i))
			}
		}
	case reflect.Slice:
		if v.IsNil() {
			if v.CanSet() {
				v.Set(reflect.MakeSlice(v.Type(), 0, 0))
			}
			return
		}
		if v.Type().Elem().Kind() == reflect.Uint8 {
			return
		}
		for i := 0; i < v.Len(); i++ {
			c09Normalise(v.Index(i))
		}
	case reflect.Map:
		if v.IsNil() {
			if v.CanSet() {
				v.Set(reflect.MakeMap(v.Type()))
			}
			return
		}
		for _, k := range v.MapKeys() {
			el := v.MapIndex(k)
			if el.Kind() == reflect.Ptr || el.Kind() == reflect.Interface {
				c09Normalise(el)
			} else if el.Kind() == reflect.Struct || el.Kind() == reflect.Slice || el.Kind() == reflect.Map {
				cp := reflect.New(el.Type()).Elem()
				cp.Set(el)
				c09Normalise(cp)
				v.SetMapIndex(k, cp)
			}
		}
	}
}

func c09Equal(want, got any) bool {
	c09Normalise(reflect.ValueOf(want))
	c09Normalise(reflect.ValueOf(got))
	return reflect.DeepEqual(want, got)
}

// c09Diff names the first differing path (diagnostics only).
func c09Diff(a, b reflect.Value, path string) string {
	if a.Kind() != b.Kind() {
		return path + ": kind differs"
	}
	switch a.Kind() {
	case reflect.Ptr:
		if a.IsNil() != b.IsNil() {
			return fmt.Sprintf("%s: nil=%v vs nil=%v", path, a.IsNil(), b.IsNil())
		}
		if a.IsNil() {
			return ""
		}
		return c09Diff(a.Elem(), b.Elem(), path)
	case reflect.Struct:
		for i := 0; i < a.NumField(); i++ {
			if d := c09Diff(a.Field(i), b.Field(i), path+"."+a.Type().Field(i).Name); d != "" {
				return d
			}
		}
	case reflect.Slice:
		if a.Len() != b.Len() {
			return fmt.Sprintf("%s: len %d vs %d", path, a.Len(), b.Len())
		}
		for i := 0; i < a.Len(); i++ {
			if d := c09Diff(a.Index(i), b.Index(i), fmt.Sprintf("%s[%d]", path, i)); d != "" {
				return d
			}
		}
	case reflect.Map:
		if a.Len() != b.Len() {
			return fmt.Sprintf("%s: map len %d vs %d", path, a.Len(), b.Len())
		}
		for _, k := range a.MapKeys() {
			bv := b.MapIndex(k)
			if !bv.IsValid() {
				return fmt.Sprintf("%s[%q]: key missing", path, fmt.Sprint(k))
			}
			if d := c09Diff(a.MapIndex(k), bv, fmt.Sprintf("%s[%q]", path, fmt.Sprint(k))); d != "" {
				return d
			}
		}
	case reflect.String:
		if a.String() != b.String() {
			return fmt.Sprintf("%s: %q vs %q", path, trunc([]byte(a.String()), 80), trunc([]byte(b.String()), 80))
		}
	case reflect.Float32, reflect.Float64:
		if a.Float() != b.Float() {
			return fmt.Sprintf("%s: %v vs %v", path, a.Float(), b.Float())
		}
	case reflect.Int, reflect.Int8, reflect.Int16, reflect.Int32, reflect.Int64:
		if a.Int() != b.Int() {
			return fmt.Sprintf("%s: %d vs %d", path, a.Int(), b.Int())
		}
	case reflect.Uint, reflect.Uint8, reflect.Uint16, reflect.Uint32, reflect.Uint64:
		if a.Uint() != b.Uint() {
			return fmt.Sprintf("%s: %d vs %d", path, a.Uint(), b.Uint())
		}
	case reflect.Bool:
		if a.Bool() != b.Bool() {
			return path + ": bool differs"
		}
	}
	return ""
}

// ---------------------------------------------------------------------------------
// c09.value

var c09FmtName = map[uint8]string{dsd.AUTO: "AUTO", dsd.RAW: "RAW", dsd.CBOR: "CBOR", dsd.GenCode: "GenCode", dsd.JSON: "JSON", dsd.MsgPack: "MsgPack", dsd.YAML: "YAML", dsd.GZIP: "GZIP", dsd.LIST: "LIST"}

func c09Name(f uint8) string {
	if n, ok := c09FmtName[f]; ok {
		return n
	}
	return fmt.Sprintf("fmt%d", f)
}

const (
	c09NoComp   = 255 // plain Dump
	c09Indented = 254 // DumpIndent
)

func c09CompName(comp uint8) string {
	switch comp {
	case c09NoComp:
		return "none"
	case c09Indented:
		return "none-indent"
	case dsd.AUTO:
		return "AUTO"
	default:
		return c09Name(comp)
	}
}

// c09Subject describes one generated value: how to regenerate it (gen is deterministic
// for a fresh stream), how to make an empty target, and the formats it is representable in.
type c09Subject struct {
	kind    string
	gen     func(r *vlib.Rand) any
	fresh   func() any
	formats []uint8
}

var c09Subjects = []c09Subject{
	{"struct", func(r *vlib.Rand) any { return c09GenVal(r) }, func() any { return &c09Val{} }, []uint8{dsd.JSON, dsd.CBOR, dsd.MsgPack, dsd.YAML, dsd.AUTO}},
	{"meta", func(r *vlib.Rand) any { return c09GenMeta(r) }, func() any { return &record.Meta{} }, []uint8{dsd.GenCode}},
	{"gencode", func(r *vlib.Rand) any { return c09GenG(r) }, func() any { return &c09G{} }, []uint8{dsd.GenCode}},
	{"gencode-interop", func(r *vlib.Rand) any { return c09GenGInterop(r) }, func() any { return &c09G{} }, []uint8{dsd.GenCode, dsd.JSON, dsd.CBOR, dsd.MsgPack, dsd.YAML, dsd.AUTO}},
	{"raw", func(r *vlib.Rand) any {
		switch r.Intn(8) {
		case 0:
			return []byte{}
		case 1:
			return []byte{byte(vlib.Pick(r, dsd.JSON, dsd.GZIP, dsd.RAW, 0, 0x80, 0xff))}
		case 2:
			return r.Bytes(r.Range(2000, 40000))
		default:
			return r.Bytes(r.Range(1, 64))
		}
	}, func() any { return &c09Val{} }, []uint8{dsd.RAW}},
}

func c09PickSubject(r *vlib.Rand) *c09Subject {
	switch x := r.Intn(20); {
	case x < 12:
		return &c09Subjects[0]
	case x < 14:
		return &c09Subjects[1]
	case x < 15:
		return &c09Subjects[2]
	case x < 17:
		return &c09Subjects[3]
	default:
		return &c09Subjects[4]
	}
}

func c09Resolved(f uint8) uint8 {
	if f == dsd.AUTO {
		return dsd.DefaultSerializationFormat
	}
	return f
}

func c09Gunzip(b []byte) ([]byte, error) {
	zr, err := gzip.NewReader(bytes.NewReader(b))
	if err != nil {
		return nil, err
	}
	return io.ReadAll(io.LimitReader(zr, 1<<26))
}

func c09Value(c *ctx, seed uint64) {
	b := c.b
	in := u64le(seed)
	b.Eval(1)
	r0 := vlib.NewRand(seed, "c09.value", 0)
	sub := c09PickSubject(r0)
	vseed := r0.Uint64()
	compared := false
	for _, f := range sub.formats {
		for _, comp := range []uint8{c09NoComp, dsd.GZIP, dsd.AUTO, c09Indented} {
			if comp == c09Indented && f != dsd.JSON && f != dsd.AUTO {
				continue
			}
			f, comp := f, comp
			combo := c09Name(f) + "/" + c09CompName(comp)
			bad := func(kind, what string, extra map[string]any) {
				d := map[string]any{"class": "c09.value", "input_hex": hex.EncodeToString(in), "subject": sub.kind, "format": c09Name(f), "compression": c09CompName(comp), "build": c.spec.Kind}
				for k, v := range extra {
					d[k] = v
				}
				b.Violation("C09:"+kind+":"+c09Name(f)+":"+c09CompName(comp), what, d)
			}
			c.call("c09.value", in, func() {
				v := sub.gen(vlib.NewRand(vseed, "c09.v", 0))
				want := sub.gen(vlib.NewRand(vseed, "c09.v", 0))
				var blob []byte
				var err error
				switch comp {
				case c09NoComp:
					blob, err = dsd.Dump(v, f)
				case c09Indented:
					blob, err = dsd.DumpIndent(v, f, vlib.Pick(r0, " ", "  ", "\t"))
				default:
					blob, err = dsd.DumpAndCompress(v, f, comp)
				}
				if err != nil {
					bad("dump-error", fmt.Sprintf("dumping a representable %s value as %s failed: %v", sub.kind, combo, err), nil)
					return
				}
				b.Count("roundtrips", 1)
				b.Seen("format_x_compression", c09Name(f)+"/"+strings.TrimSuffix(c09CompName(comp), "-indent"))
				if comp == c09Indented {
					b.Count("indented", 1)
				}
				got := sub.fresh()
				lf, lerr := dsd.Load(exact(blob), got)
				compared = true
				head := hex.EncodeToString(trunc(blob, 48))
				if f == dsd.RAW {
					if !errors.Is(lerr, dsd.ErrIsRaw) || lf != dsd.RAW {
						bad("raw-contract", fmt.Sprintf("Load of a RAW dump (%s, %d payload bytes) returned (format %d, err %v); contract is (RAW, ErrIsRaw)", combo, len(v.([]byte)), lf, lerr),
							map[string]any{"blob_head": head, "payload_len": len(v.([]byte))})
						return
					}
					payload := blob[1:]
					if comp != c09NoComp {
						un, err := c09Gunzip(blob[1:])
						if err != nil || len(un) < 1 || un[0] != dsd.RAW {
							bad("raw-bytes", fmt.Sprintf("compressed RAW dump does not gunzip to RAW-identified bytes: %v", err), map[string]any{"blob_head": head})
							return
						}
						payload = un[1:]
					}
					if !bytes.Equal(payload, want.([]byte)) {
						bad("raw-bytes", "bytes after the RAW identifier differ from the dumped bytes", map[string]any{"blob_head": head})
					}
					return
				}
				if lerr != nil {
					bad("load-error", fmt.Sprintf("Load(Dump(v, %s)) failed: %v (identifier byte of the dump = %d)", combo, lerr, blob[0]), map[string]any{"blob_head": head, "load_err": lerr.Error()})
					return
				}
				if lf != c09Resolved(f) {
					bad("wrong-format", fmt.Sprintf("Load(Dump(v, %s)) reports format %d (%s), dumped as %s", combo, lf, c09Name(lf), c09Name(c09Resolved(f))), map[string]any{"blob_head": head})
				}
				if !c09Equal(want, got) {
					bad("value-differs", fmt.Sprintf("Load(Dump(v, %s)) differs from v at %s", combo, c09Diff(reflect.ValueOf(want), reflect.ValueOf(got), "v")),
						map[string]any{"blob_head": head, "blob_len": len(blob)})
				}
			})
		}
	}
	if compared {
		b.Distinct([]byte("c09.value"), in)
		b.Seen("subjects", sub.kind)
	}
}

// ---------------------------------------------------------------------------------
// c09.http

type c09Accept struct {
	header    string
	supported bool // names application/{json,cbor,msgpack,yaml}
	wildcard  bool
	alias     bool
}

var c09Mime = map[string]uint8{"application/json": dsd.JSON, "application/cbor": dsd.CBOR, "application/msgpack": dsd.MsgPack, "application/yaml": dsd.YAML}

func c09RandCase(r *vlib.Rand, s string) string {
	switch r.Intn(4) {
	case 0:
		return strings.ToUpper(s)
	case 1:
		b := []byte(s)
		for i := range b {
			if r.Bool() && b[i] >= 'a' && b[i] <= 'z' {
				b[i] -= 32
			}
		}
		return string(b)
	default:
		return s
	}
}

func c09GenAccept(r *vlib.Rand) c09Accept {
	var a c09Accept
	n := r.Range(1, 4)
	var parts []string
	for i := 0; i < n; i++ {
		var rng string
		switch x := r.Intn(10); {
		case x < 4:
			rng = c09RandCase(r, vlib.Pick(r, "application/json", "application/cbor", "application/msgpack", "application/yaml"))
			a.supported = true
		case x < 5:
			rng = vlib.Pick(r, "*/*", "application/*", "text/*")
			a.wildcard = true
		case x < 6:
			rng = c09RandCase(r, vlib.Pick(r, "text/yaml", "application/yml", "text/json", "application/x-yaml"))
			a.alias = true
		default:
			rng = vlib.Pick(r, "text/html", "image/webp", "application/xml", "application/xhtml+xml", "text/plain", "application/vnd.api+json", "application/octet-stream", "application/jsonp", "application/json5", "x")
		}
		for j, np := 0, r.Intn(3); j < np; j++ {
			rng += ";" + vlib.Pick(r, "", " ", "\t") + vlib.Pick(r, "q=0.9", "q=0", "q=1.000", "q=0.001", "charset=utf-8", "charset=\"utf-8\"", "version=1", "Q=0.5", "foo=\"a,b\"", "profile=\"x;y\"")
		}
		parts = append(parts, rng)
	}
	for i, p := range parts {
		if i > 0 {
			a.header += vlib.Pick(r, ",", ", ", " , ", ",  ", ",\t")
		}
		a.header += p
	}
	return a
}

var (
	c09SrvOnce sync.Once
	c09Srv     *httptest.Server
)

// c09Server is the loopback echo server: it loads the request body with the real
// LoadFromHTTPRequest and answers with the real DumpToHTTPResponse.
func c09Server() *httptest.Server {
	c09SrvOnce.Do(func() {
		c09Srv = httptest.NewServer(http.HandlerFunc(func(w http.ResponseWriter, r *http.Request) {
			defer func() {
				if x := recover(); x != nil {
					w.Header().Set("X-C09-Panic", fmt.Sprint(x))
					w.WriteHeader(599)
				}
			}()
			v := &c09Val{}
			f, err := dsd.LoadFromHTTPRequest(r, v)
			w.Header().Set("X-C09-Loaded-Format", fmt.Sprint(f))
			if err != nil {
				w.Header().Set("X-C09-Load-Error", err.Error())
				w.WriteHeader(http.StatusBadRequest)
				return
			}
			if err := dsd.DumpToHTTPResponse(w, r, v); err != nil {
				w.Header().Set("X-C09-Dump-Error", err.Error())
				w.WriteHeader(http.StatusNotAcceptable)
			}
		}))
	})
	return c09Srv
}

// c09CTFormat maps a Content-Type value to a format with the harness's own table
// (standard media-type parsing), independent of dsd.FormatFromAccept.
func c09CTFormat(ct string) (uint8, bool) {
	mt, _, err := mime.ParseMediaType(ct)
	if err != nil {
		return 0, false
	}
	f, ok := c09Mime[mt]
	return f, ok
}

func c09HTTP(c *ctx, seed uint64) {
	b := c.b
	in := u64le(seed)
	b.Eval(1)
	r := vlib.NewRand(seed, "c09.http", 0)
	vseed := r.Uint64()
	gen := func() *c09Val { return c09GenVal(vlib.NewRand(vseed, "c09.hv", 0)) }
	want := gen()
	f := vlib.Pick(r, uint8(dsd.JSON), dsd.CBOR, dsd.MsgPack, dsd.YAML)
	acc := c09GenAccept(r)
	overWire := r.Chance(1, 4)
	compared := false
	bad := func(kind, where, what string, extra map[string]any) {
		d := map[string]any{"class": "c09.http", "input_hex": hex.EncodeToString(in), "format": c09Name(f), "accept": acc.header, "build": c.spec.Kind}
		for k, v := range extra {
			d[k] = v
		}
		b.Violation("C09:"+kind+":"+where, what, d)
	}
	// checkCT: the content type must name a format with which the body decodes to the value
	checkCT := func(where, ct string, body []byte) {
		cf, ok := c09CTFormat(ct)
		if !ok {
			bad("http-content-type", where, fmt.Sprintf("%s: Content-Type %q does not name a dsd format; body is %d bytes starting %x", where, ct, len(body), trunc(body, 16)), map[string]any{"content_type": ct})
			return
		}
		got := &c09Val{}
		if err := dsd.LoadAsFormat(exact(body), cf, got); err != nil || !c09Equal(want, got) {
			bad("http-content-type-mismatch", where, fmt.Sprintf("%s: Content-Type %q names %s but the body does not decode to the value with it (err %v)", where, ct, c09Name(cf), err), map[string]any{"content_type": ct})
		}
	}

	// (1) request direction, in memory
	c.call("c09.http", in, func() {
		req := httptest.NewRequest(http.MethodPost, "http://c09.test/x", nil)
		if err := dsd.DumpToHTTPRequest(req, gen(), f); err != nil {
			bad("http-dump-error", "request", fmt.Sprintf("DumpToHTTPRequest(%s) failed: %v", c09Name(f), err), nil)
			return
		}
		b.Seen("http_paths", "request/recorder")
		body, _ := io.ReadAll(req.Body)
		req.Body = io.NopCloser(bytes.NewReader(body))
		ct := req.Header.Get("Content-Type")
		got := &c09Val{}
		lf, err := dsd.LoadFromHTTPRequest(req, got)
		compared = true
		b.Count("http_roundtrips", 1)
		switch {
		case err != nil:
			bad("http-load-error", "request", fmt.Sprintf("LoadFromHTTPRequest(DumpToHTTPRequest(v, %s)) failed: %v (Content-Type %q)", c09Name(f), err, ct), nil)
		case lf != f:
			bad("http-wrong-format", "request", fmt.Sprintf("LoadFromHTTPRequest reports %s, dumped as %s", c09Name(lf), c09Name(f)), nil)
		case !c09Equal(want, got):
			bad("http-value-differs", "request", "value differs after DumpToHTTPRequest/LoadFromHTTPRequest at "+c09Diff(reflect.ValueOf(want), reflect.ValueOf(got), "v"), nil)
		}
		checkCT("request", ct, body)
		if a := req.Header.Get("Accept"); a != ct {
			b.Note("DumpToHTTPRequest: Accept %q differs from Content-Type %q", a, ct)
		}
	})

	// unsupported formats on the HTTP path must not produce a request that loads to something else
	c.call("c09.http", in, func() {
		for _, uf := range []uint8{dsd.AUTO, dsd.RAW, dsd.GenCode} {
			req := httptest.NewRequest(http.MethodPost, "http://c09.test/x", nil)
			if err := dsd.DumpToHTTPRequest(req, gen(), uf); err == nil {
				b.Count("http_unsupported_format_accepted", 1)
				got := &c09Val{}
				if _, err := dsd.LoadFromHTTPRequest(req, got); err != nil || !c09Equal(want, got) {
					bad("http-load-error", "request-"+c09Name(uf), fmt.Sprintf("DumpToHTTPRequest(%s) succeeded but the request does not load back (err %v)", c09Name(uf), err), nil)
				}
			} else {
				b.Count("http_unsupported_format_refused", 1)
			}
		}
	})

	// (2) response direction, in memory
	mustSucceed := acc.supported || acc.wildcard
	c.call("c09.http", in, func() {
		req := httptest.NewRequest(http.MethodGet, "http://c09.test/x", nil)
		req.Header.Set("Accept", acc.header)
		rec := httptest.NewRecorder()
		err := dsd.DumpToHTTPResponse(rec, req, gen())
		if err != nil {
			if mustSucceed {
				bad("http-dump-error", "response", fmt.Sprintf("DumpToHTTPResponse failed for Accept %q, which names a supported format or a wildcard: %v", acc.header, err), nil)
			} else {
				b.Count("http_accept_refused", 1)
			}
			return
		}
		b.Seen("http_paths", "response/recorder")
		if acc.supported {
			b.Count("http_accept_supported", 1)
		} else if acc.wildcard {
			b.Count("http_accept_wildcard", 1)
		} else {
			b.Count("http_accept_other_accepted", 1)
		}
		resp := rec.Result()
		body := rec.Body.Bytes()
		ct := resp.Header.Get("Content-Type")
		got := &c09Val{}
		lf, lerr := dsd.LoadFromHTTPResponse(resp, got)
		compared = true
		b.Count("http_roundtrips", 1)
		b.Seen("http_response_formats", c09Name(lf))
		switch {
		case lerr != nil:
			bad("http-load-error", "response", fmt.Sprintf("LoadFromHTTPResponse(DumpToHTTPResponse(v)) failed for Accept %q: Content-Type sent = %q, body starts %x: %v", acc.header, ct, trunc(body, 12), lerr), map[string]any{"content_type": ct})
		case !c09Equal(want, got):
			bad("http-value-differs", "response", fmt.Sprintf("value differs after DumpToHTTPResponse/LoadFromHTTPResponse (Accept %q, Content-Type %q) at %s", acc.header, ct, c09Diff(reflect.ValueOf(want), reflect.ValueOf(got), "v")), map[string]any{"content_type": ct})
		}
		checkCT("response", ct, body)
	})

	// (3) both directions over a real loopback connection
	if overWire {
		c.call("c09.http", in, func() {
			srv := c09Server()
			req, err := http.NewRequest(http.MethodPost, srv.URL+"/echo", nil)
			if err != nil {
				return
			}
			if err := dsd.DumpToHTTPRequest(req, gen(), f); err != nil {
				return // reported in (1)
			}
			useAccept := acc.header
			if !mustSucceed || r.Bool() {
				useAccept = req.Header.Get("Accept") // what DumpToHTTPRequest asked for
			} else {
				req.Header.Set("Accept", useAccept)
			}
			resp, err := srv.Client().Do(req)
			if err != nil {
				b.Inconclusive("loopback request failed: %v", err)
				return
			}
			defer resp.Body.Close()
			b.Seen("http_paths", "request+response/loopback")
			if p := resp.Header.Get("X-C09-Panic"); p != "" {
				bad("panic", "loopback-handler", "handler panicked inside dsd: "+p, nil)
				return
			}
			if resp.StatusCode == http.StatusBadRequest {
				bad("http-load-error", "request-loopback", fmt.Sprintf("server side LoadFromHTTPRequest failed: %s", resp.Header.Get("X-C09-Load-Error")), nil)
				return
			}
			if lf := resp.Header.Get("X-C09-Loaded-Format"); lf != fmt.Sprint(f) {
				bad("http-wrong-format", "request-loopback", fmt.Sprintf("server side LoadFromHTTPRequest reports format %s, dumped as %d", lf, f), nil)
			}
			if resp.StatusCode == http.StatusNotAcceptable {
				bad("http-dump-error", "response-loopback", fmt.Sprintf("server side DumpToHTTPResponse failed for Accept %q: %s", useAccept, resp.Header.Get("X-C09-Dump-Error")), nil)
				return
			}
			ct := resp.Header.Get("Content-Type")
			body, _ := io.ReadAll(resp.Body)
			resp.Body = io.NopCloser(bytes.NewReader(body))
			got := &c09Val{}
			_, lerr := dsd.LoadFromHTTPResponse(resp, got)
			compared = true
			b.Count("http_roundtrips", 1)
			b.Count("http_loopback_roundtrips", 1)
			switch {
			case lerr != nil:
				bad("http-load-error", "response-loopback", fmt.Sprintf("LoadFromHTTPResponse failed over loopback for Accept %q: Content-Type received = %q: %v", useAccept, ct, lerr), map[string]any{"content_type": ct})
			case !c09Equal(want, got):
				bad("http-value-differs", "response-loopback", fmt.Sprintf("echoed value differs (Accept %q, Content-Type %q) at %s", useAccept, ct, c09Diff(reflect.ValueOf(want), reflect.ValueOf(got), "v")), nil)
			}
			checkCT("response-loopback", ct, body)
		})
	}
	if compared {
		b.Distinct([]byte("c09.http"), in)
	}
}

// ---------------------------------------------------------------------------------
// c09.bytes — totality

var c09Targets = []struct {
	name  string
	fresh func() any
}{
	{"struct", func() any { return &c09Val{} }},
	{"map", func() any { return &map[string]any{} }},
	{"iface", func() any { var x any; return &x }},
	{"bytes", func() any { return &[]byte{} }},
	{"strings", func() any { return &[]string{} }},
	{"gencode", func() any { return &c09G{} }},
	{"meta", func() any { return &record.Meta{} }},
}

var c09ContentTypes = []string{"application/json", "application/cbor", "application/msgpack", "application/yaml", "text/yml; charset=utf-8", "", "*/*", "text/html"}

func c09Bytes(c *ctx, in []byte) {
	b := c.b
	b.Eval(1)
	b.Count("hostile_inputs", 1)
	returned := false
	check := func(fn string, f uint8, err error) {
		returned = true
		if err != nil {
			b.Count("load_errors", 1)
		} else {
			b.Count("load_values", 1)
		}
	}
	for ti, tg := range c09Targets {
		tg := tg
		c.call("c09.bytes", in, func() {
			f, err := dsd.Load(exact(in), tg.fresh())
			check("Load", f, err)
		})
		c.call("c09.bytes", in, func() {
			f, err := dsd.DecompressAndLoad(exact(in), dsd.GZIP, tg.fresh())
			check("DecompressAndLoad", f, err)
		})
		// the same bytes without identifier through the explicit-format and mime entry points
		for _, f := range []uint8{dsd.JSON, dsd.CBOR, dsd.MsgPack, dsd.YAML, dsd.GenCode} {
			f := f
			c.call("c09.bytes", in, func() {
				err := dsd.LoadAsFormat(exact(in), f, tg.fresh())
				check("LoadAsFormat", f, err)
			})
		}
		if ti == 0 {
			for _, f := range []uint8{dsd.AUTO, dsd.RAW, dsd.GZIP, dsd.LIST, 2, 128, 255} {
				f := f
				c.call("c09.bytes", in, func() {
					err := dsd.LoadAsFormat(exact(in), f, tg.fresh())
					check("LoadAsFormat", f, err)
					if f == dsd.RAW && !errors.Is(err, dsd.ErrIsRaw) {
						b.Violation("C09:raw-contract:LoadAsFormat", fmt.Sprintf("LoadAsFormat(RAW) returned %v, not ErrIsRaw", err), map[string]any{"class": "c09.bytes", "input_hex": hex.EncodeToString(trunc(in, 4096))})
					}
				})
			}
			for _, ct := range c09ContentTypes {
				ct := ct
				c.call("c09.bytes", in, func() {
					f, err := dsd.MimeLoad(exact(in), ct, tg.fresh())
					check("MimeLoad", f, err)
				})
			}
			c.call("c09.bytes", in, func() {
				req := httptest.NewRequest(http.MethodPost, "http://c09.test/", bytes.NewReader(in))
				req.Header.Set("Content-Type", "application/msgpack")
				f, err := dsd.LoadFromHTTPRequest(req, tg.fresh())
				check("LoadFromHTTPRequest", f, err)
			})
		}
	}
	if returned {
		b.Distinct([]byte("c09.bytes"), in)
	}
}

func c09Gzip(b []byte) []byte {
	var buf bytes.Buffer
	zw, _ := gzip.NewWriterLevel(&buf, gzip.BestSpeed)
	_, _ = zw.Write(b)
	_ = zw.Close()
	return buf.Bytes()
}

func c09Cap(in []byte) []byte { return trunc(in, 4096) }

// c09ValidDump returns a valid dump of a small generated value.
func c09ValidDump(r *vlib.Rand) []byte {
	var blob []byte
	var err error
	switch r.Intn(8) {
	case 0:
		blob, err = dsd.Dump(c09GenMeta(r), dsd.GenCode)
	case 1:
		blob, err = dsd.Dump(c09GenG(r), dsd.GenCode)
	case 2:
		blob, err = dsd.Dump(r.Bytes(r.Intn(20)), dsd.RAW)
	default:
		f := vlib.Pick(r, uint8(dsd.JSON), dsd.CBOR, dsd.MsgPack, dsd.YAML)
		if r.Chance(1, 3) {
			blob, err = dsd.DumpAndCompress(c09GenVal(r), f, dsd.GZIP)
		} else {
			blob, err = dsd.Dump(c09GenVal(r), f)
		}
	}
	if err != nil {
		return []byte{dsd.JSON, '{', '}'}
	}
	return blob
}

var c09Attacks = [][]byte{
	{dsd.MsgPack, 0xdd, 0xff, 0xff, 0xff, 0xff},                         // array32 of 2^32-1
	{dsd.MsgPack, 0xdf, 0xff, 0xff, 0xff, 0xff},                         // map32
	{dsd.MsgPack, 0xc6, 0xff, 0xff, 0xff, 0xff},                         // bin32
	{dsd.MsgPack, 0xdb, 0x7f, 0xff, 0xff, 0xff, 'a'},                    // str32
	{dsd.MsgPack, 0xc9, 0xff, 0xff, 0xff, 0xff, 0x01},                   // ext32
	{dsd.CBOR, 0x9b, 0xff, 0xff, 0xff, 0xff, 0xff, 0xff, 0xff, 0xff},    // array 2^64-1
	{dsd.CBOR, 0xbb, 0x7f, 0xff, 0xff, 0xff, 0xff, 0xff, 0xff, 0xff},    // map
	{dsd.CBOR, 0x5b, 0x7f, 0xff, 0xff, 0xff, 0xff, 0xff, 0xff, 0xff},    // bytes
	{dsd.CBOR, 0x7b, 0x00, 0x00, 0x00, 0x01, 0x00, 0x00, 0x00, 0x00},    // text 4 GiB
	{dsd.CBOR, 0x9f},                                                    // indefinite array, no break
	{dsd.CBOR, 0xc2, 0x5b, 0xff, 0xff, 0xff, 0xff, 0xff, 0xff, 0xff, 0xff}, // bignum
	{dsd.GenCode, 0xff, 0xff, 0xff, 0xff, 0xff, 0xff, 0xff, 0xff, 0xff, 0xff, 0x01},
	{dsd.GZIP}, {dsd.GZIP, 0x1f, 0x8b}, {dsd.GZIP, 0x1f, 0x8b, 8, 0, 0, 0, 0, 0, 0, 0xff},
	{dsd.JSON}, {dsd.RAW}, {dsd.AUTO}, {dsd.AUTO, '{', '}'}, {dsd.LIST, 1, 2}, {0x80}, {0x80, 0x01, '{', '}'}, {0xca, 0x00, '{', '}'}, {0xff, 0xff, 0xff},
	[]byte("\x59a: &a [*a, *a, *a, *a, *a, *a, *a, *a, *a]\nb: &b [*a, *a, *a, *a, *a, *a, *a, *a, *a]\nc: &c [*b, *b, *b, *b, *b, *b, *b, *b, *b]\nd: &d [*c, *c, *c, *c, *c, *c, *c, *c, *c]\ne: &e [*d, *d, *d, *d, *d, *d, *d, *d, *d]\nf: [*e, *e, *e, *e, *e, *e, *e, *e, *e]\n"),
	[]byte("\x59? [a, b]\n: c\n"), []byte("\x59!!binary |\n  R0lG\n"), []byte("\x59<<: *x\n"), []byte("\x59- !!float 'x'\n"), []byte("\x59\t\x00"),
	[]byte("\x4a{\"I\":1e400}"), []byte("\x4a{\"I8\":300}"), []byte("\x4a{\"Ba\":\"!!!\"}"), []byte("\x4a{\"Inp\":{\"P\":[]}}"), []byte("\x4a\xef\xbb\xbf{}"),
}

func runC09(c *ctx) {
	s, ns := c.spec.Shard, c.spec.NShards
	b := c.b
	if s == 0 {
		// samples: real dumps of one small value
		small := &c09Inner{N: 7, Str: "é", Bs: []byte{1, 2}, L: []string{"a"}}
		for _, f := range []uint8{dsd.JSON, dsd.AUTO, dsd.CBOR} {
			blob, err := dsd.Dump(small, f)
			got := &c09Inner{}
			lf, lerr := dsd.Load(blob, got)
			b.Sample(map[string]any{"class": "c09.value", "format": c09Name(f), "dump_hex": hex.EncodeToString(blob), "dump_err": fmt.Sprint(err), "load_format": lf, "load_err": fmt.Sprint(lerr), "equal": c09Equal(small, got)})
		}
		req := httptest.NewRequest(http.MethodGet, "http://c09.test/", nil)
		req.Header.Set("Accept", "application/cbor;q=0.9, */*")
		rec := httptest.NewRecorder()
		err := dsd.DumpToHTTPResponse(rec, req, small)
		got := &c09Inner{}
		lf, lerr := dsd.LoadFromHTTPResponse(rec.Result(), got)
		b.Sample(map[string]any{"class": "c09.http", "accept": "application/cbor;q=0.9, */*", "dump_err": fmt.Sprint(err), "content_type": rec.Header().Get("Content-Type"),
			"body_hex": hex.EncodeToString(rec.Body.Bytes()), "load_format": lf, "load_err": fmt.Sprint(lerr), "equal": c09Equal(small, got)})
	}

	// (1) values
	rv := c.rand("values")
	nv := c.n(4000, 40000) / ns
	for i := 0; i < nv; i++ {
		c09Value(c, rv.Uint64())
	}
	// (2) http
	rh := c.rand("http")
	nh := c.n(4800, 48000) / ns
	for i := 0; i < nh; i++ {
		c09HTTP(c, rh.Uint64())
	}
	if c09Srv != nil {
		c09Srv.Close()
	}
	// (3) hostile bytes
	if s == 0 {
		c09Bytes(c, nil)
		for _, a := range c09Attacks {
			c09Bytes(c, a)
			if len(a) > 1 {
				c09Bytes(c, append([]byte{dsd.GZIP}, c09Gzip(a)...))
			}
		}
		for id := 0; id < 256; id++ {
			c09Bytes(c, []byte{byte(id)})
			c09Bytes(c, []byte{byte(id), '{', '}'})
		}
		// small gzip bombs (expand to <= 4 MiB) and deep nesting behind compression
		for _, fill := range []string{"[", "{\"a\":", "- ", "\x91", "\x81", " "} {
			for _, f := range []uint8{dsd.JSON, dsd.YAML, dsd.MsgPack, dsd.CBOR} {
				inner := append([]byte{f}, bytes.Repeat([]byte(fill), (1<<22)/len(fill))...)
				c09Bytes(c, c09Cap(append([]byte{dsd.GZIP}, c09Gzip(inner)...)))
			}
		}
	}
	rb := c.rand("bytes")
	nb := c.n(12000, 1000000) / ns
	for i := 0; i < nb; {
		switch rb.Intn(8) {
		case 0: // every truncation of a valid dump (bounded)
			d := c09Cap(c09ValidDump(rb))
			step := 1
			if len(d) > 64 {
				step = len(d) / 48
			}
			for n := 0; n < len(d) && i < nb; n += step {
				c09Bytes(c, d[:n])
				i++
			}
		case 1, 2: // byte flips / overwrites
			d := append([]byte{}, c09Cap(c09ValidDump(rb))...)
			for k, n := 0, rb.Range(1, 4); k < n && len(d) > 0; k++ {
				p := rb.Intn(len(d))
				if rb.Bool() {
					d[p] ^= 1 << uint(rb.Intn(8))
				} else {
					d[p] = byte(rb.Uint64())
				}
			}
			c09Bytes(c, d)
			i++
		case 3: // splice two dumps
			d1, d2 := c09Cap(c09ValidDump(rb)), c09Cap(c09ValidDump(rb))
			c09Bytes(c, c09Cap(append(append([]byte{}, d1[:rb.Intn(len(d1)+1)]...), d2[rb.Intn(len(d2)+1):]...)))
			i++
		case 4: // valid identifier + random body
			id := vlib.Pick(rb, uint8(dsd.JSON), dsd.CBOR, dsd.MsgPack, dsd.YAML, dsd.GenCode, dsd.RAW, dsd.GZIP, dsd.AUTO, dsd.LIST)
			c09Bytes(c, append([]byte{id}, rb.Bytes(rb.Intn(64))...))
			i++
		case 5: // gzip-wrapped: valid inner, corrupted inner, wrong inner id, corrupted gzip stream
			inner := append([]byte{}, c09Cap(c09ValidDump(rb))...)
			if rb.Bool() && len(inner) > 0 {
				inner[rb.Intn(len(inner))] ^= byte(1 + rb.Intn(255))
			}
			z := c09Gzip(inner)
			if rb.Chance(1, 3) {
				z[rb.Intn(len(z))] ^= byte(1 + rb.Intn(255))
			}
			if rb.Chance(1, 4) {
				z = z[:rb.Intn(len(z))]
			}
			c09Bytes(c, c09Cap(append([]byte{dsd.GZIP}, z...)))
			i++
		case 6: // structured text fragments
			frag := []string{"{", "}", "[", "]", ":", ",", "\"", "a", "1", "-", "null", "true", "\\u00", "\\", "\n", " ", "- ", "&a", "*a", "!!", "|", ">", "? ", "'", "e9", ".", "~", "#", "%", "---", "..."}
			var sb bytes.Buffer
			sb.WriteByte(vlib.Pick(rb, uint8(dsd.JSON), dsd.YAML))
			for k, n := 0, rb.Range(1, 24); k < n; k++ {
				sb.WriteString(vlib.Pick(rb, frag...))
			}
			c09Bytes(c, sb.Bytes())
			i++
		default:
			c09Bytes(c, rb.Bytes(rb.Intn(48)))
			i++
		}
	}
}
