#!/usr/bin/env python3
"""mkavoid.py — writes /tmp/avoid-<Cxx>.txt (one line per seeded change kept so far) and /tmp/prop-<Cxx>.txt
(the property text) for the next round of mutation agents. Developer tool."""
import json, glob, os, re
props = [json.loads(l) for l in open('/verif/properties.jsonl') if l.strip()]
for pr in props:
    pid = pr['id']
    open('/tmp/prop-%s.txt' % pid, 'w').write(json.dumps(pr, indent=1))
    lines = []
    for d in sorted(glob.glob('/verif/seeded/%s-*' % pid)):
        patch = open(d + '/patch.diff').read() if os.path.exists(d + '/patch.diff') else ''
        files = sorted(set(re.findall(r'^\+\+\+ b/(\S+)', patch, re.M)))
        funcs = sorted(set(re.findall(r'^@@.*@@ (func .*?)\s*\{?$', patch, re.M)))
        notes = ''
        if os.path.exists(d + '/notes.md'):
            for l in open(d + '/notes.md'):
                l = l.strip()
                if l.startswith('#'):
                    notes = l.lstrip('# ').strip(); break
        lines.append('- %s [%s]: %s' % (', '.join(files), '; '.join(funcs)[:160], notes[:260]))
    open('/tmp/avoid-%s.txt' % pid, 'w').write(
        'Changes already produced by earlier rounds for this property (do NOT repeat these or close variants; pick different functions/mechanisms/clauses):\n' + '\n'.join(lines) + '\n')
print('ok')
