#!/usr/bin/env python3
"""Regenerates MANIFEST.json from the table below (single source of truth for the interface file)."""
import json, os, subprocess
ROOT = os.path.dirname(os.path.abspath(__file__))

BASELINE_OFF = ("cd /repo && GOFLAGS=-mod=mod GOPROXY=off GOSUMDB=off GOTOOLCHAIN=local "
                "go test -json -vet=off -count=1 -timeout 25m ./...")

# id -> (engine, level category, technique, level text, level note, design ref)
CLAIMED = {}
NOT_YET = {}

def claim(pid, engine, technique, text, note, category="exploration"):
    CLAIMED[pid] = dict(engine=engine, category=category, technique=technique, text=text, note=note)

exec(open(os.path.join(ROOT, "manifest_table.py")).read())

def hook_commits():
    try:
        out = subprocess.check_output(["git", "-C", "/repo", "log", "--format=%h %s"], text=True)
    except Exception:
        return []
    return [l.split()[0] for l in out.splitlines() if l.split(" ", 1)[1].startswith("verif-hooks:")]

props = [json.loads(l) for l in open(os.path.join(ROOT, "properties.jsonl"))]
checks = []
na = []
for p in props:
    pid = p["id"]
    if pid in CLAIMED:
        c = CLAIMED[pid]
        checks.append(dict(
            property_id=pid,
            quick_cmd="./vcheck %s --tier quick" % pid,
            thorough_cmd="./vcheck %s --tier thorough" % pid,
            evidence_file="/verif/evidence/%s.json" % pid,
            replay_cmd_template="./vcheck %s --replay {path}" % pid,
            engine=c["engine"],
            level_claimed=dict(category=c["category"], text=c["text"], design_ref="DESIGN.md section 5, %s" % pid),
            level_note=c["note"],
            technique=c["technique"]))
    else:
        na.append(dict(property_id=pid, reason=NOT_YET.get(pid, "check not built yet (work in progress); runtime monitoring applies, see DESIGN.md section 5")))
engines = {}
for pid, c in CLAIMED.items():
    engines.setdefault(c["engine"], []).append(pid)
man = dict(
    version=1,
    setup_cmd="cd /verif && GOFLAGS=-mod=mod GOPROXY=off GOSUMDB=off GOTOOLCHAIN=local ./setup.sh",
    hooks=dict(guard="verif",
               enable="go build -tags verif (the harness module /verif/harness replaces github.com/safing/portbase with /repo; vcheck rebuilds the engine from /repo's working tree on every invocation)",
               baseline_off_cmd=BASELINE_OFF,
               source_commits=hook_commits(),
               add_only=True),
    engines=[dict(name=e, path="/verif/harness/cmd/%s" % e, serves_properties=sorted(ps),
                  kind_free_text="Go child-process engine linking the real portbase packages; monitors + oracles in-process, orchestrated by /verif/vcheck")
             for e, ps in sorted(engines.items())],
    checks=checks,
    not_applicable=na,
    notes="Technique family: runtime monitoring and sanitizers. Every check runs the real code from /repo's working tree (built with -tags verif) under generated workloads in child processes and decides with oracles over observed executions; exit 0 held / 1 VIOLATION / 2 broken check. The thorough tier runs the engine for several seed-derived rounds (round r uses seed + 1000003*r; table CHECKS in /verif/vcheck) and merges the results, so the case counts quoted in the level texts are per round. Known genuine defects: /verif/known_findings.json. Seeded-change record (which check catches which change): /verif/seeded/RESULTS.md and DESIGN.md section 11.3.")
json.dump(man, open(os.path.join(ROOT, "MANIFEST.json"), "w"), indent=1)
print("MANIFEST.json: %d checks, %d not_applicable" % (len(checks), len(na)))
