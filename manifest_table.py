# one claim() per property that has a working check; executed by mkmanifest.py
claim("C10", "h_codec",
      "differential monitor against an independent LEB128 reference over exhaustive small spaces + boundary/PRNG inputs; over-read canary; race/checkptr builds",
      "Every (function,input) pair explored is decided by comparing the real varint functions with an arbitrary-precision reference coder; 8/16-bit values and all byte strings up to length 2 (quick) / 3 (thorough) are enumerated completely, wider values and longer strings are boundary-exhaustive plus sampled. Held = no disagreement, panic, out-of-input slice or sanitizer report on what was run.",
      "Trusts the harness reference coder (cross-checked against encoding/binary on every value) and the Go runtime's bounds checks/recover; sampled beyond the exhaustive sub-spaces.")
