#!/usr/bin/env python3
"""kf_add.py <property> <id> <commit|-> <status fixed|known> <what> <witness> [match_sig] — appends to known_findings.json (developer tool, never run by checks)."""
import json, sys
p='/verif/known_findings.json'
d=json.load(open(p))
prop,fid,commit,status,what,witness=sys.argv[1:7]
e={"property":prop,"id":fid,"status":status}
if status=="fixed":
    e["commit"]=commit; e["what"]="fixed: property=%s %s %s"%(prop,commit,what)
else:
    e["what"]=what; e["match_sig"]=sys.argv[7]
e["witness"]=witness
d["findings"]=[f for f in d["findings"] if f["id"]!=fid]+[e]
json.dump(d,open(p,'w'),indent=1)
print("added",fid)
