#!/bin/sh
# Offline setup: the driver is a python3 script and needs no build; warm the Go build
# cache for the harness so that the first check does not pay the cold build.
set -e
cd "$(dirname "$0")"
mkdir -p .work evidence replays
cd harness
go build -tags verif ./... 
echo setup ok
