#!/bin/sh
# Offline setup: the driver is a python3 script and needs no build. Warm the Go build cache for the
# harness engines so that the first check does not pay the cold build. A failure to build one engine is
# reported but does not fail the setup: the check that needs it reports it (exit 2) by itself.
cd "$(dirname "$0")"
mkdir -p .work evidence replays
export GOFLAGS=-mod=mod GOPROXY=off GOSUMDB=off GOTOOLCHAIN=local
cd harness
for d in cmd/*/; do
  e=$(basename "$d")
  go build -tags verif -o /dev/null "./cmd/$e" || echo "setup: warning: engine $e does not build"
done
echo setup ok
